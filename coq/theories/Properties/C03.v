(* C03 — mutable shapes stay coherent under any history of mutations.

   Model: Model/StateModel.v, a cache-coherence automaton (fresh/stale tag per cached attribute;
   a mutator applies a transform and refreshes the attributes it writes; an attribute it does not
   write stays fresh only if it is invariant under the transform).
   Tie to the code: the write set of every mutator is REGENERATED from the source on every run
   (Gen/Effects.v, transitively through self.method() calls and property assignments) and must
   equal the automaton's; a mutator that stops (or starts) refreshing an attribute breaks
   C03_write_sets_match.  The invariance table and "writes apply the right covariance rule" are
   modelled (see ScalingThm / MeshThm for the rules that are proved); the implementation is
   explored exhaustively to depth 2/3 by the harness against freshly constructed shapes. *)
From Coq Require Import String List Bool.
Require Import Cox.Gen.Effects Cox.Model.StateModel Cox.Thm.StateThm.
Import ListNotations.
Local Open Scope string_scope.

Theorem C03_write_sets_match :
  forallb writes_match (mutators_ConvexPolyhedron ++ mutators_Polyhedron ++ mutators_Polygon) = true.
Proof. vm_compute. reflexivity. Qed.
Print Assumptions C03_write_sets_match.

(* every size setter reaches the geometry only through _rescale (so it inherits its coherence) *)
Theorem C03_size_setters_go_through_rescale :
  size_setters_rescale "ConvexPolyhedron" ["volume"; "surface_area"; "minimal_bounding_sphere_radius";
      "minimal_centered_bounding_sphere_radius"; "maximal_centered_bounded_sphere_radius"; "circumsphere_radius"; "insphere_radius"]
  && size_setters_rescale "Polyhedron" ["volume"; "surface_area"; "circumsphere_radius"; "insphere_radius"]
  && size_setters_rescale "Polygon" ["area"; "perimeter"; "circumcircle_radius"; "incircle_radius"]
  && size_setters_rescale "ConvexSpheropolygon" ["area"; "perimeter"]
  && size_setters_rescale "ConvexSpheropolyhedron" ["volume"; "surface_area"; "mean_curvature"] = true.
Proof. vm_compute. reflexivity. Qed.
Print Assumptions C03_size_setters_go_through_rescale.

(* for ALL histories over the mutator alphabet, every cached attribute is fresh afterwards *)
Theorem C03_ConvexPolyhedron_coherent :
  forall ops, (forall m, In m ops -> In m mutators_ConvexPolyhedron) ->
    coherent (fold_left step ops (fresh_state attrs_ConvexPolyhedron)) = true.
Proof. apply coherent_histories. vm_compute. reflexivity. Qed.
Print Assumptions C03_ConvexPolyhedron_coherent.

Theorem C03_Polyhedron_coherent :
  forall ops, (forall m, In m ops -> In m mutators_Polyhedron) ->
    coherent (fold_left step ops (fresh_state attrs_Polyhedron)) = true.
Proof. apply coherent_histories. vm_compute. reflexivity. Qed.
Print Assumptions C03_Polyhedron_coherent.

Theorem C03_Polygon_coherent :
  forall ops, (forall m, In m ops -> In m mutators_Polygon) ->
    coherent (fold_left step ops (fresh_state attrs_Polygon)) = true.
Proof. apply coherent_histories. vm_compute. reflexivity. Qed.
Print Assumptions C03_Polygon_coherent.

(* what the automaton says about the code AS FOUND (before the fix: commits): a diagonalize_inertia that
   does not refresh _equations, and a merge_faces that does not invalidate the edge cache, break coherence *)
Example C03_diagonalize_without_refresh_refuted :
  coherent (step (fresh_state attrs_ConvexPolyhedron)
     {| m_class := "ConvexPolyhedron"; m_kind := "method"; m_name := "diagonalize_inertia"; m_transform := TRotate;
        m_writes := ["_vertices"; "_simplices"; "_volume"; "_simplex_equations"; "_centroid"] |}) = false.
Proof. vm_compute. reflexivity. Qed.
Example C03_merge_without_invalidation_refuted :
  coherent (step (fresh_state attrs_Polyhedron)
     {| m_class := "Polyhedron"; m_kind := "method"; m_name := "merge_faces"; m_transform := TRefaces;
        m_writes := ["_faces"; "_neighbors"; "_equations"] |}) = false.
Proof. vm_compute. reflexivity. Qed.
