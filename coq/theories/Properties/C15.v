(* C15 — constructors accept valid geometry and reject invalid geometry.
   Oracle: Model/Simple.v (simple_bf: exact decision of simplicity; proper_cross_bf: a transversal
   crossing of two non-adjacent edges).  The two geometric predicates simple_bf is built from are PROVED to be the
   definitions: seg_meet <-> the closed segments share a point; fold_back <-> consecutive edges share a point other than
   their common vertex.  Partial: Bentley-Ottmann and qhull are oracles whose verdicts
   are compared with the exact classification on margin-separated inputs; the angular re-ordering of
   ConvexPolygon is checked per instance (every consecutive turn positive about the normal). *)
From Coq Require Import Reals QArith String List Bool.
Require Import Cox.Num.Ops Cox.Num.Transfer Cox.Geo.Vec Cox.Model.Simple Cox.Gen.Effects Cox.Model.Setters
  Cox.Thm.SimpleThm Cox.Thm.SimpleTransfer Cox.Thm.SegMeet Cox.Thm.SimpleSpec.
Import ListNotations.

(* THE ORACLE IS THE DEFINITION.  simple_bf requires, for every pair of edges of the cycle: non-adjacent edges must not
   satisfy seg_meet, adjacent edges must not satisfy fold_back.  Both tests are exactly the geometric notions - for ALL real
   coordinates, degenerate (collinear, zero-length, touching) configurations included: *)
Theorem C15_seg_meet_is_intersection :
  forall a b c d : vec2 R, seg_meet Rops a b c d = true <-> exists p, on_seg a b p /\ on_seg c d p.
Proof. exact seg_meet_spec. Qed.
Print Assumptions C15_seg_meet_is_intersection.

Theorem C15_fold_back_is_overlap :
  forall a b c : vec2 R, fold_back Rops a b c = true <-> exists p, ~ same_pt p b /\ on_seg a b p /\ on_seg b c p.
Proof. exact fold_back_spec. Qed.
Print Assumptions C15_fold_back_is_overlap.

(* ... and so the whole oracle: a cycle passes simple_bf exactly when it has at least three vertices and, for every pair of edges
   i < j, adjacent edges do not overlap beyond their common vertex and non-adjacent edges have no common point - the definition
   of a simple closed polygon, for cycles of ANY length *)
Theorem C15_simple_bf_is_the_definition :
  forall V : list (vec2 R),
    simple_bf Rops V = true <->
    ((3 <= length V)%nat /\
     forall i j e1 e2, (i < j)%nat -> nth_error (cpairs V) i = Some e1 -> nth_error (cpairs V) j = Some e2 -> pair_ok (length V) i j e1 e2).
Proof. exact simple_bf_spec. Qed.
Print Assumptions C15_simple_bf_is_the_definition.

(* soundness of the "clearly invalid" class: a proper crossing is a genuine common point of the
   two open edges, so the cycle is not simple *)
Theorem C15_proper_crossing_is_an_intersection :
  forall a b c d : vec2 R,
    opposite Rops (orient Rops c d a) (orient Rops c d b) = true ->
    opposite Rops (orient Rops a b c) (orient Rops a b d) = true ->
    exists t s, (0 < t < 1)%R /\ (0 < s < 1)%R /\ lerp a b t = lerp c d s.
Proof. exact proper_crossing_has_common_point. Qed.
Print Assumptions C15_proper_crossing_is_an_intersection.

(* the executable oracle decides the real-number predicate on the embedded input *)
Theorem C15_oracle_transfer :
  forall V, simple_bf Qops V = simple_bf Rops (map Q2R2 V)
         /\ proper_cross_bf Qops V = proper_cross_bf Rops (map Q2R2 V).
Proof. intros V. split; [apply simple_bf_transfer | apply proper_cross_bf_transfer]. Qed.
Print Assumptions C15_oracle_transfer.

(* non-positive radii / semi-axes and negative rounding radii: constructors establish them only through
   the property setters, and those are guarded (both facts read off the source on every run) *)
Theorem C15_radius_guards :
  constructors_use_guarded_setters = true /\ all_setters_classified_and_guarded = true.
Proof. vm_compute. split; reflexivity. Qed.
Print Assumptions C15_radius_guards.

(* non-vacuity: a bow-tie is not simple and crosses properly; an L-shape is simple *)
Example C15_examples :
  simple_bf Qops [(0,0); (2,2); (2,0); (0,2)]%Q = false
  /\ proper_cross_bf Qops [(0,0); (2,2); (2,0); (0,2)]%Q = true
  /\ simple_bf Qops [(0,0); (2,0); (2,1); (1,1); (1,2); (0,2)]%Q = true
  /\ proper_cross_bf Qops [(0,0); (2,0); (2,1); (1,1); (1,2); (0,2)]%Q = false.
Proof. vm_compute. repeat split; reflexivity. Qed.
