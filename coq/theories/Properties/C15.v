(* C15 — constructors accept valid geometry and reject invalid geometry.
   Oracle: Model/Simple.v (simple_bf: exact decision of simplicity; proper_cross_bf: a transversal
   crossing of two non-adjacent edges).  Partial: Bentley-Ottmann and qhull are oracles whose verdicts
   are compared with the exact classification on margin-separated inputs; the angular re-ordering of
   ConvexPolygon is checked per instance (every consecutive turn positive about the normal). *)
From Coq Require Import Reals QArith String List Bool.
Require Import Cox.Num.Ops Cox.Num.Transfer Cox.Geo.Vec Cox.Model.Simple Cox.Gen.Effects Cox.Model.Setters
  Cox.Thm.SimpleThm Cox.Thm.SimpleTransfer.
Import ListNotations.

(* soundness of the "clearly invalid" class: a proper crossing is a genuine common point of the
   two open edges, so the cycle is not simple *)
Theorem C15_proper_crossing_is_an_intersection :
  forall a b c d : vec2 R,
    opposite Rops (orient Rops c d a) (orient Rops c d b) = true ->
    opposite Rops (orient Rops a b c) (orient Rops a b d) = true ->
    exists t s, (0 < t < 1)%R /\ (0 < s < 1)%R /\ lerp a b t = lerp c d s.
Proof. exact proper_crossing_has_common_point. Qed.
Print Assumptions C15_proper_crossing_is_an_intersection.

(* the executable oracle decides the real-number predicate on the embedded input *)
Theorem C15_oracle_transfer :
  forall V, simple_bf Qops V = simple_bf Rops (map Q2R2 V)
         /\ proper_cross_bf Qops V = proper_cross_bf Rops (map Q2R2 V).
Proof. intros V. split; [apply simple_bf_transfer | apply proper_cross_bf_transfer]. Qed.
Print Assumptions C15_oracle_transfer.

(* non-positive radii / semi-axes and negative rounding radii: constructors establish them only through
   the property setters, and those are guarded (both facts read off the source on every run) *)
Theorem C15_radius_guards :
  constructors_use_guarded_setters = true /\ all_setters_classified_and_guarded = true.
Proof. vm_compute. split; reflexivity. Qed.
Print Assumptions C15_radius_guards.

(* non-vacuity: a bow-tie is not simple and crosses properly; an L-shape is simple *)
Example C15_examples :
  simple_bf Qops [(0,0); (2,2); (2,0); (0,2)]%Q = false
  /\ proper_cross_bf Qops [(0,0); (2,2); (2,0); (0,2)]%Q = true
  /\ simple_bf Qops [(0,0); (2,0); (2,1); (1,1); (1,2); (0,2)]%Q = true
  /\ proper_cross_bf Qops [(0,0); (2,0); (2,1); (1,1); (1,2); (0,2)]%Q = false.
Proof. vm_compute. repeat split; reflexivity. Qed.
