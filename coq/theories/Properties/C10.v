(* C10 — Circle, Ellipse, Sphere, Ellipsoid measures equal their defining integrals.

   Two ties to the code:
   (1) Gen/Scalars.v is REGENERATED from /repo's source on every run; the theorems below are
       about those generated definitions, so they are re-checked against what the code says now.
   (2) Model/Curved.v (rational coefficients of pi) is run against the implementation.          *)
From Coq Require Import Reals Lra List.
From Coquelicot Require Import Coquelicot.
Require Import Cox.Num.Ops Cox.Model.Curved Cox.Model.Special Cox.Gen.Scalars
  Cox.Thm.GenScalarsThm Cox.Thm.CurvedIntegrals Cox.Thm.PerimeterThm Cox.Thm.EllipseIso.
Local Open Scope R_scope.

(* ---------- the code's closed forms are the defining integrals ---------- *)
Theorem C10_ellipse_area :
  forall a b cx cy cz,
    ellipse_area a b cx cy cz = RInt (fun th => RInt (fun rho => a * b * rho) 0 1) 0 (2 * PI).
Proof. intros. rewrite gen_ellipse_area, ellipse_area_integral. reflexivity. Qed.
Print Assumptions C10_ellipse_area.

Theorem C10_circle_area :
  forall r cx cy cz,
    circle_area r cx cy cz = RInt (fun th => RInt (fun rho => r * r * rho) 0 1) 0 (2 * PI).
Proof. intros. rewrite gen_circle_area, ellipse_area_integral. reflexivity. Qed.
Print Assumptions C10_circle_area.

Theorem C10_ellipsoid_volume :
  forall a b c cx cy cz,
    ellipsoid_volume a b c cx cy cz
    = RInt (fun th => RInt (fun ph => RInt (fun r => a * b * c * sin ph * r ^ 2) 0 1) 0 PI) 0 (2 * PI).
Proof. intros. rewrite gen_ellipsoid_volume, ellipsoid_volume_integral. reflexivity. Qed.
Print Assumptions C10_ellipsoid_volume.

Theorem C10_sphere_volume :
  forall r cx cy cz,
    sphere_volume r cx cy cz
    = RInt (fun th => RInt (fun ph => RInt (fun s => r * r * r * sin ph * s ^ 2) 0 1) 0 PI) 0 (2 * PI).
Proof. intros. rewrite gen_sphere_volume, ellipsoid_volume_integral. reflexivity. Qed.
Print Assumptions C10_sphere_volume.

(* ---------- planar moments ---------- *)
(* the defining integrals I_x = int y^2, I_y = int x^2, I_xy = int xy over the off-centre ellipse *)
Theorem C10_moments_spec_are_integrals :
  forall a b cx cy,
    PI * fst (fst (ell_moments Rops false a b cx cy))
      = RInt (fun th => RInt (fun rho => (cy + b * rho * sin th) ^ 2 * (a * b * rho)) 0 1) 0 (2 * PI)
    /\ PI * snd (fst (ell_moments Rops false a b cx cy))
      = RInt (fun th => RInt (fun rho => (cx + a * rho * cos th) ^ 2 * (a * b * rho)) 0 1) 0 (2 * PI)
    /\ PI * snd (ell_moments Rops false a b cx cy)
      = RInt (fun th => RInt (fun rho => (cx + a * rho * cos th) * (cy + b * rho * sin th) * (a * b * rho)) 0 1) 0 (2 * PI).
Proof.
  intros. repeat split; symmetry.
  - apply ellipse_Ix_integral. - apply ellipse_Iy_integral. - apply ellipse_Ixy_integral.
Qed.
Print Assumptions C10_moments_spec_are_integrals.

(* the code as found swaps the parallel-axis terms: full statement refuted with a witness ... *)
Theorem C10_planar_moments_refuted :
  exists r cx cy cz,
    circle_planar_moments_inertia r cx cy cz <>
    (let m := ell_moments Rops false r r cx cy in (PI * fst (fst m), PI * snd (fst m), PI * snd m)).
Proof. exact gen_circle_moments_refuted. Qed.
Print Assumptions C10_planar_moments_refuted.

(* ... the code computes exactly the swapped model (the faithful model of the known finding) ... *)
Theorem C10_planar_moments_as_found :
  forall a b cx cy cz,
    ellipse_planar_moments_inertia a b cx cy cz =
    (let m := ell_moments Rops true a b cx cy in (PI * fst (fst m), PI * snd (fst m), PI * snd m)).
Proof. exact gen_ellipse_moments_as_found. Qed.
Print Assumptions C10_planar_moments_as_found.

(* ... which is right when cx^2 = cy^2, and always right for the polar moment *)
Theorem C10_planar_moments_centred_partial :
  forall a b cx cy cz, cx ^ 2 = cy ^ 2 ->
    ellipse_planar_moments_inertia a b cx cy cz =
    (let m := ell_moments Rops false a b cx cy in (PI * fst (fst m), PI * snd (fst m), PI * snd m)).
Proof. exact gen_ellipse_moments_centred_partial. Qed.
Print Assumptions C10_planar_moments_centred_partial.

Theorem C10_polar_moment :
  forall a b cx cy cz,
    (let m := ellipse_planar_moments_inertia a b cx cy cz in fst (fst m) + snd (fst m))
    = PI * ell_polar Rops a b cx cy.
Proof. exact gen_ellipse_polar_ok. Qed.
Print Assumptions C10_polar_moment.

(* ---------- inertia tensors: central entries and the volume used for the parallel axis ---------- *)
Theorem C10_ellipsoid_inertia_central :
  forall a b c cx cy cz,
    ellipsoid_inertia_tensor a b c cx cy cz =
    (let V := PI * eld_volume Rops a b c in
     (V / 5 * (b ^ 2 + c ^ 2), V / 5 * (a ^ 2 + c ^ 2), V / 5 * (a ^ 2 + b ^ 2), V)).
Proof. exact gen_ellipsoid_inertia. Qed.
Print Assumptions C10_ellipsoid_inertia_central.

(* ---------- eccentricity, iq, symmetry in the semi-axes ---------- *)
Theorem C10_eccentricity :
  forall a b cx cy cz,
    ellipse_eccentricity a b cx cy cz = sqrt (1 - (Rmin a b) ^ 2 / (Rmax a b) ^ 2)
    /\ ellipse_eccentricity a b cx cy cz = ellipse_eccentricity b a cx cy cz
    /\ ellipse_perimeter a b cx cy cz = ellipse_perimeter b a cx cy cz.
Proof.
  intros. repeat split.
  - apply ellipse_eccentricity_symmetric. - apply ellipse_perimeter_symmetric.
Qed.
Print Assumptions C10_eccentricity.
(* the perimeter formula of the source, 4 a E(e^2) (definition regenerated from the source), is four times the arc length
   of the quarter ellipse gamma(t) = (a sin t, b cos t), 0 <= t <= pi/2, whose speed is sqrt((a cos t)^2 + (b sin t)^2) *)
Theorem C10_ellipse_perimeter_is_arc_length :
  forall a b cx cy cz, 0 < b -> b <= a ->
    ellipse_perimeter a b cx cy cz
    = 4 * @Coquelicot.RInt.RInt Coquelicot.Hierarchy.R_CompleteNormedModule (fun t => sqrt ((a * cos t) ^ 2 + (b * sin t) ^ 2)) 0 (PI / 2).
Proof. exact ellipse_perimeter_is_arc_length. Qed.
Print Assumptions C10_ellipse_perimeter_is_arc_length.

Theorem C10_iq_at_most_one_partial :
  forall a b cx cy cz, ellipse_iq a b cx cy cz <= 1 /\ forall r, circle_iq r cx cy cz = 1 /\ sphere_iq r cx cy cz = 1.
Proof. intros. split; [apply gen_ellipse_iq_le_1 | intros; split; reflexivity]. Qed.
Print Assumptions C10_iq_at_most_one_partial.
(* the clamp `min(., 1)` of the source is never active: for all positive semi-axes the un-clamped quotient 4 pi A / P^2 is at most 1
   (P >= pi (a + b) >= 2 pi sqrt(a b)), so ellipse_iq IS that quotient; and it equals 1 exactly for the circle. *)
Theorem C10_ellipse_isoperimetric :
  forall a b cx cy cz, 0 < a -> 0 < b ->
    PI * (a + b) <= ellipse_perimeter a b cx cy cz
    /\ ellipse_iq a b cx cy cz = 4 * PI * ellipse_area a b cx cy cz / (ellipse_perimeter a b cx cy cz) ^ 2
    /\ (ellipse_iq a b cx cy cz = 1 <-> a = b).
Proof.
  intros a b cx cy cz Ha Hb. split; [exact (ellipse_perimeter_lower_any a b cx cy cz Ha Hb)|].
  split; [exact (ellipse_iq_is_raw a b cx cy cz Ha Hb) | exact (ellipse_iq_one_iff_circle a b cx cy cz Ha Hb)].
Qed.
Print Assumptions C10_ellipse_isoperimetric.
(* not proved: the identification of Legendre's ellipsoid-area formula with the surface integral (Interval-certified samples and
   quadrature cover it). *)
