(* C20 — exported mesh files describe exactly the polyhedron.
   Model/MeshIO.v: writers and parsers on token lines (coordinates are opaque float tokens).
   The parsers below are the ones the harness runs on the bytes the implementation wrote. *)
From Coq Require Import List Bool Arith.
Require Import Cox.Model.MeshIO Cox.Thm.MeshIOThm.
Import ListNotations.

Theorem C20_obj_roundtrip : forall m, wf_mesh m = true -> parse_obj (write_obj m) = Some m.
Proof. exact obj_roundtrip. Qed.
Print Assumptions C20_obj_roundtrip.
Theorem C20_ply_roundtrip : forall m, wf_mesh m = true -> parse_ply (write_ply m) = Some m.
Proof. exact ply_roundtrip. Qed.
Print Assumptions C20_ply_roundtrip.
Theorem C20_vtk_roundtrip : forall m, wf_mesh m = true -> parse_vtk (write_vtk m) = Some m.
Proof. exact vtk_roundtrip. Qed.
Print Assumptions C20_vtk_roundtrip.
Theorem C20_off_roundtrip : forall m ne, wf_mesh m = true -> parse_off (write_off m ne) = Some m.
Proof. exact off_roundtrip. Qed.
Print Assumptions C20_off_roundtrip.
(* the count line io.to_off actually writes ("<V> f<F> <E>") is not a valid OFF header: refuted *)
Theorem C20_off_as_found_refuted : forall m ne, parse_off (write_off_as_found m ne) = None.
Proof. exact off_as_found_refuted. Qed.
Print Assumptions C20_off_as_found_refuted.
(* X3D/HTML coordIndex: consecutive indices closed by -1 encode exactly the list of face sizes *)
Theorem C20_x3d_coordindex_roundtrip :
  forall fs start, forallb (Nat.leb 3) fs = true ->
    forall fuel, length (x3d_index start fs) < fuel ->
      x3d_parse fuel start 0 (x3d_index start fs) = Some fs.
Proof. exact x3d_roundtrip. Qed.
Print Assumptions C20_x3d_coordindex_roundtrip.

(* STL: the facets the writer emits are, in order, the fan triangles (f0, f_k, f_k+1) of every face, each corner a vertex of the mesh *)
Theorem C20_stl_roundtrip :
  forall m, wf_mesh m = true -> parse_stl (nv m) (write_stl m) = Some (flat_map fan (faces m)).
Proof. exact stl_roundtrip. Qed.
Print Assumptions C20_stl_roundtrip.

Example C20_stl_cube_face :
  let m := {| nv := 8; faces := [[0;1;2;3]; [4;7;6;5]; [0;4;5;1]] |} in
  wf_mesh m = true /\ parse_stl 8 (write_stl m) = Some [(0,1,2); (0,2,3); (4,7,6); (4,6,5); (0,4,5); (0,5,1)].
Proof. vm_compute. split; reflexivity. Qed.

Example C20_tetra :
  let m := {| nv := 4; faces := [[0;2;1]; [0;1;3]; [0;3;2]; [1;2;3]] |} in
  wf_mesh m = true /\ parse_obj (write_obj m) = Some m /\ parse_vtk (write_vtk m) = Some m.
Proof. vm_compute. repeat split; reflexivity. Qed.
