(* C17 — parametric shape families generate exactly the documented shapes.
   Gen/Planes.v (plane tables, types, fixed middle distance, domains, thresholds) is REGENERATED from
   the source on every run; Model/Families.v enumerates the exact vertex set of the half-space
   intersection over Q(sqrt5). *)
From Coq Require Import Reals QArith List Bool.
Require Import Cox.Num.Ops Cox.Num.Qsqrt5 Cox.Geo.Vec Cox.Model.Families Cox.Gen.Planes Cox.Thm.FamiliesThm Cox.Thm.FamiliesComplete.
Import ListNotations.

(* every point the exact enumeration returns satisfies every half-space constraint (any number system) *)
Theorem C17_vertices_feasible :
  forall (T : Type) (O : Ops T) planes dists x,
    In x (exact_vertices O planes dists) -> feasible O planes dists x = true.
Proof. intros T O. exact (exact_vertices_feasible O). Qed.
Print Assumptions C17_vertices_feasible.

(* ... and conversely (over R): every feasible point at which three planes with independent normals are tight is returned,
   so the enumeration is exactly the vertex set of the half-space intersection, for plane tables of any size *)
Theorem C17_vertices_complete :
  forall planes dists (x : vec3 R) i j k p0 p1 p2,
    (i < j)%nat -> (j < k)%nat ->
    nth_error planes i = Some p0 -> nth_error planes j = Some p1 -> nth_error planes k = Some p2 ->
    vdot Rops (fst p0) x = dist_of dists (snd p0) ->
    vdot Rops (fst p1) x = dist_of dists (snd p1) ->
    vdot Rops (fst p2) x = dist_of dists (snd p2) ->
    vdet Rops (col3 0 (fst p0) (fst p1) (fst p2)) (col3 1 (fst p0) (fst p1) (fst p2)) (col3 2 (fst p0) (fst p1) (fst p2)) <> 0%R ->
    feasible Rops planes dists x = true ->
    In x (exact_vertices Rops planes dists).
Proof. exact exact_vertices_complete. Qed.
Print Assumptions C17_vertices_complete.

(* ... and is the intersection of three of the planes *)
Theorem C17_cramer :
  forall r0 r1 r2 y x : vec3 R, solve3 Rops r0 r1 r2 y = Some x ->
    vdot Rops r0 x = vx y /\ vdot Rops r1 x = vy y /\ vdot Rops r2 x = vz y.
Proof. exact solve3_on_planes. Qed.
Print Assumptions C17_cramer.

(* the documented solids at the corners of the domains (vertex counts of the exact intersection, on the
   plane tables read from the source): 323+: octahedron, tetrahedra, cube, cuboctahedron (centre);
   423: cuboctahedron, cube, octahedron, rhombic dodecahedron *)
Definition count (pl : list (sq5 * sq5 * sq5)) (ty : list nat) (b : sq5) (a c : Q) : nat :=
  length (exact_vertices S5ops (combine pl ty) (s5_of_Q a, b, s5_of_Q c)).
Theorem C17_corner_solids :
  map (fun ac => count planes_323 types_323 b_323 (fst ac) (snd ac)) [(1,1); (1,3); (3,1); (3,3); (2,2)]%Q = [6; 4; 4; 8; 12]%nat
  /\ map (fun ac => count planes_423 types_423 b_423 (fst ac) (snd ac)) [(1,2); (1,3); (2,2); (2,3)]%Q = [12; 8; 6; 14]%nat.
Proof. vm_compute. split; reflexivity. Qed.
Print Assumptions C17_corner_solids.

(* domains as read from the source: [1,3]x[1,3], [1,2]x[2,3], [1, s sqrt5]x[S^2, 3] *)
Theorem C17_domains :
  in_domain S5ops domain_323 (s5_of_Q 1) (s5_of_Q 3) = true /\ in_domain S5ops domain_323 (s5_of_Q (1#2)) (s5_of_Q 2) = false
  /\ in_domain S5ops domain_423 (s5_of_Q 2) (s5_of_Q 2) = true /\ in_domain S5ops domain_423 (s5_of_Q 1) (s5_of_Q (3#2)) = false
  /\ in_domain S5ops domain_523 (mk5 (5#2) (-1#2)) s5_S2 = true /\ in_domain S5ops domain_523 (s5_of_Q (3#2)) (s5_of_Q 3) = false.
Proof. vm_compute. repeat split; reflexivity. Qed.
Print Assumptions C17_domains.

(* uniform families (over R; the trigonometric quantities enter as positive parameters) *)
Theorem C17_ngon_unit_area :
  forall n s : R, (0 < n)%R -> (0 < s)%R ->
    let area0 := (/ 2 * n * s)%R in let rho := sqrt (1 / area0) in (/ 2 * n * (rho * rho) * s = 1)%R.
Proof. exact ngon_unit_area. Qed.
Print Assumptions C17_ngon_unit_area.
Theorem C17_prism :
  forall n t h : R, (0 < n)%R -> (0 < t)%R -> (0 < h)%R -> (h * h * h = 4 / n * t)%R ->
    let A := (1 / h)%R in (A * h = 1 /\ 4 * A * t / n = h * h)%R.
Proof. exact prism_unit_volume_equal_edges. Qed.
Print Assumptions C17_prism.
(* partial: antiprism / pyramid / dipyramid closed forms are validated numerically for every admissible n
   (volume and centroid by the exact C01 model on the binary64 vertices, edge lengths in binary64). *)
