(* C01 — Convex polyhedron volume, centroid and inertia tensor are exact.

   Model: Model/Mesh.v (signed_volume, centroid_code, inertia_code = the code's
   _calculate_signed_volume, _centroid_from_triangulated_surface,
   _compute_inertia_tensor + translate_inertia_tensor).
   Spec: signed cone (tetrahedron) moments cone0/cone1/cone2 of the oriented
   boundary chain = the exact integrals of 1, x_i, x_i x_j over the enclosed solid.

   For EVERY closed oriented triangle chain (any number of triangles, any
   coordinates), as the executable test [closedb] certifies it on indices:       *)
From Coq Require Import Reals QArith Qreals List Lia.
Require Import Cox.Num.Ops Cox.Num.Transfer Cox.Geo.Vec Cox.Geo.Sums Cox.Model.Mesh Cox.Model.Entry
  Cox.Thm.MeshThm Cox.Thm.ClosedThm Cox.Thm.MeshTransfer Cox.Thm.TetraMoments.
Import ListNotations.
Local Open Scope R_scope.

(* volume: the code's signed volume is the zeroth cone moment (any chain) *)
Theorem C01_volume : forall TT, signed_volume Rops TT = cone0 Rops TT.
Proof. exact signed_volume_is_cone0. Qed.
Print Assumptions C01_volume.

(* the volume does not depend on where the shape sits (apex independence) *)
Theorem C01_volume_translation_invariant :
  forall d TT, closed TT -> cone0 Rops (map (tshift Rops d) TT) = cone0 Rops TT.
Proof. exact cone0_shift. Qed.
Print Assumptions C01_volume_translation_invariant.

(* centroid: the curl-theorem surface formula is the exact first moment / volume *)
Theorem C01_centroid :
  forall vol i TT, closed TT -> vol = cone0 Rops TT -> vol <> 0 ->
    centroid_code Rops vol i TT = spec_centroid Rops i TT.
Proof. exact centroid_code_exact. Qed.
Print Assumptions C01_centroid.

(* inertia tensor: 4-point quadrature about the centroid + parallel axis shift is the
   exact origin-frame tensor, entry by entry *)
Theorem C01_inertia :
  forall vol c i j TT, (i < 3)%nat -> (j < 3)%nat ->
    closed TT -> vol = cone0 Rops TT -> vol <> 0 ->
    (forall k, vcomp k c = spec_centroid Rops k TT) ->
    inertia_code Rops vol c i j TT = spec_inertia Rops i j TT.
Proof. exact inertia_code_exact. Qed.
Print Assumptions C01_inertia.

(* end-to-end statement about what the extracted binary prints: on index triangles
   that pass the boolean closedness test, the rational inertia entry computed by the
   Q-model, read as a real, is the exact spec of the embedded mesh *)
Lemma resolve_embed (V : list (vec3 Q)) tr :
  map Q2Rt (resolve Qops V tr) = resolve Rops (map Q2R3 V) tr.
Proof.
  assert (Hg : forall i, Q2R3 (getv Qops V i) = getv Rops (map Q2R3 V) i).
  { intros i. unfold getv.
    replace (vzero Rops) with (Q2R3 (vzero Qops)).
    - symmetry. apply map_nth.
    - unfold vzero; cbn [Q2R3 o0 Qops Rops]. rewrite RMicromega.Q2R_0. reflexivity. }
  unfold resolve. rewrite !map_map. apply map_ext. intros [[a b] c].
  unfold Q2Rt, ta, tb, tc; cbn [fst snd]. rewrite !Hg. reflexivity.
Qed.

Theorem C01_inertia_executable :
  forall (V : list (vec3 Q)) tr (i j : nat), (i < 3)%nat -> (j < 3)%nat ->
    closedb tr = true ->
    let TTq := resolve Qops V tr in
    let TTr := map Q2Rt TTq in
    let vol := signed_volume Qops TTq in
    let c := (centroid_code Qops vol 0 TTq, centroid_code Qops vol 1 TTq, centroid_code Qops vol 2 TTq) in
    Q2R vol <> 0 ->
    Q2R (inertia_code Qops vol c i j TTq) = spec_inertia Rops i j TTr.
Proof.
  intros V tr i j Hi Hj Hcb TTq TTr vol c Hnz.
  assert (Hc : closed TTr).
  { unfold TTr, TTq. rewrite resolve_embed. apply closedb_closed, Hcb. }
  rewrite inertia_code_transfer.
  assert (Hv : Q2R vol = cone0 Rops TTr).
  { unfold vol. rewrite signed_volume_transfer. apply signed_volume_is_cone0. }
  apply inertia_code_exact; auto.
  intros k. unfold c.
  destruct k as [|[|k]]; cbn [vcomp vx vy vz Q2R3 fst snd];
    rewrite centroid_code_transfer;
    [ apply centroid_code_exact; auto | apply centroid_code_exact; auto | ].
  change (spec_centroid Rops (S (S k)) TTr) with (spec_centroid Rops 2 TTr).
  apply centroid_code_exact; auto.
Qed.
Print Assumptions C01_inertia_executable.

(* the index-level closedness test is sound for the coordinate-level hypothesis *)
Theorem C01_closedness_test_sound :
  forall (V : list (vec3 R)) tr, closedb tr = true -> closed (resolve Rops V tr).
Proof. exact closedb_closed. Qed.
Print Assumptions C01_closedness_test_sound.

(* LEVEL 0: the tetrahedron moments the specification is built from ARE integrals.  For every (signed) tetrahedron
   (0, a, b, c), parametrised X = u a + v b + w c over the standard simplex with Jacobian det(a,b,c):
     m0 = int 1,   m1 i = int x_i,   m2 i j = int x_i x_j      (Coquelicot iterated RInt).
   cone0/cone1/cone2 are their sums over the boundary triangles; that the signed sum over a closed outward chain is the
   integral over the enclosed solid (tiling by cones from the origin) is the modelled step. *)
Theorem C01_tetrahedron_moments_are_integrals :
  forall (t : @tri R) (i j : nat),
    tet_int (fun _ => 1) t = m0 Rops t
    /\ tet_int (fun X => vcomp i X) t = m1 Rops i t
    /\ tet_int (fun X => vcomp i X * vcomp j X) t = m2 Rops i j t.
Proof. intros t i j. repeat split; [apply m0_is_integral | apply m1_is_integral | apply m2_is_integral]. Qed.
Print Assumptions C01_tetrahedron_moments_are_integrals.

(* non-vacuity: a concrete closed chain (the unit tetrahedron, outward oriented) meets
   the hypotheses, has volume 1/6 and centroid x = 1/4 *)
Example C01_tetra_hypotheses :
  let V := [(0,0,0); (1,0,0); (0,1,0); (0,0,1)]%Q in
  let tr := [(0,2,1); (0,1,3); (0,3,2); (1,2,3)]%nat in
  closedb tr = true /\ signed_volume Qops (resolve Qops V tr) == 1 # 6
  /\ centroid_code Qops (1 # 6) 0 (resolve Qops V tr) == 1 # 4.
Proof. vm_compute. repeat split; reflexivity. Qed.
