(* C08 — size setters hit their target by pure similarity; bad targets are refused.

   Translator tie: Gen/Effects.v (gen_guards) is regenerated from /repo on every run; the first
   theorem is re-checked against it, so removing a guard, adding an unguarded setter, or changing
   `> 0` into something else breaks it. *)
From Coq Require Import Reals String List Bool.
Require Import Cox.Num.Ops Cox.Geo.Vec Cox.Model.Mesh Cox.Gen.Effects Cox.Model.Setters
  Cox.Thm.MeshThm Cox.Thm.ScalingThm.
Import ListNotations.

(* every property setter of every shape class is classified, and every size setter has the shape
     if value > 0: <rescale> else: raise ValueError
   (>= 0 for rounding radii); zero, negative and NaN targets all fail `value > 0` *)
Theorem C08_bad_targets_refused : all_setters_classified_and_guarded = true.
Proof. vm_compute. reflexivity. Qed.
Print Assumptions C08_bad_targets_refused.

(* uniform scaling by s multiplies the exact volume by s^3, first moments by s^4, second by s^5 ... *)
Theorem C08_volume_homogeneous :
  forall s TT, cone0 Rops (map (tscale s) TT) = (s ^ 3 * cone0 Rops TT)%R.
Proof. exact cone0_scale. Qed.
Print Assumptions C08_volume_homogeneous.
Theorem C08_centroid_scales :
  forall s i TT, s <> 0%R -> cone0 Rops TT <> 0%R ->
    spec_centroid Rops i (map (tscale s) TT) = (s * spec_centroid Rops i TT)%R.
Proof. exact centroid_scale. Qed.
Print Assumptions C08_centroid_scales.
Theorem C08_inertia_homogeneous :
  forall s i j TT, spec_inertia Rops i j (map (tscale s) TT) = (s ^ 5 * spec_inertia Rops i j TT)%R.
Proof. exact inertia_scale. Qed.
Print Assumptions C08_inertia_homogeneous.

(* ... so a setter that rescales by s with s^d = target/current makes a degree-d measure read back
   as the target *)
Theorem C08_setter_hits_target :
  forall (cur target s : R) (d : nat) (m' : R),
    cur <> 0%R -> (s ^ d = target / cur)%R -> (m' = s ^ d * cur)%R -> m' = target.
Proof. exact setter_hits_target. Qed.
Print Assumptions C08_setter_hits_target.

(* dimensionless descriptors are preserved by the similarity *)
Theorem C08_iq_invariant :
  forall V S s : R, s <> 0%R -> S <> 0%R ->
    (PI * 36 * (s ^ 3 * V) ^ 2 / (s ^ 2 * S) ^ 3 = PI * 36 * V ^ 2 / S ^ 3)%R.
Proof. exact iq_scale_invariant. Qed.
Print Assumptions C08_iq_invariant.

(* translation (centroid setter) leaves the volume unchanged and moves the centroid with the shape *)
Theorem C08_translation_volume :
  forall d TT, closed TT -> cone0 Rops (map (tshift Rops d) TT) = cone0 Rops TT.
Proof. exact cone0_shift. Qed.
Print Assumptions C08_translation_volume.
Theorem C08_translation_first_moment :
  forall d i TT, closed TT ->
    cone1 Rops i (map (tshift Rops d) TT) = (cone1 Rops i TT - vcomp i d * cone0 Rops TT)%R.
Proof. exact cone1_shift. Qed.
Print Assumptions C08_translation_first_moment.
