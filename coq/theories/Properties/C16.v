(* C16 — queries are free of side effects.

   Decided on Gen/Effects.v, which is REGENERATED from the source on every run: for every property
   getter of every shape class and for every query method, the attributes it may write
   (transitively through self.method() calls and property assignments). *)
From Coq Require Import String List Bool.
Require Import Cox.Gen.Effects Cox.Model.StateModel.
Import ListNotations.
Local Open Scope string_scope.

(* every getter / query writes nothing, except (i) the private memo attributes _simplex_areas and
   _face_centroids and (ii) the listed move-and-restore queries, which may write exactly the geometry
   they restore *)
Theorem C16_queries_write_nothing : all_queries_pure = true.
Proof. vm_compute. reflexivity. Qed.
Print Assumptions C16_queries_write_nothing.

(* no method writes in place (op=, item store, out=) into an array received as an argument, not even
   through np.asarray / atleast_2d aliases of it *)
Theorem C16_argument_arrays_untouched : no_argument_writes = true.
Proof. vm_compute. reflexivity. Qed.
Print Assumptions C16_argument_arrays_untouched.

(* a pure query leaves the abstract cache state unchanged: trivial in the automaton (it is not a step) —
   what the automaton cannot express (a move-and-restore query restoring exactly, aliases handed out
   earlier, repeated answers) is decided by the exhaustive pair exploration of the harness. *)
Example C16_nonvacuous :
  write_set "Polygon" "getter" "inertia_tensor" = ["_vertices"; "_normal"]
  /\ write_set "Polygon" "getter" "centroid" = []
  /\ write_set "ConvexPolyhedron" "getter" "face_centroids" = ["_simplex_areas"; "_face_centroids"].
Proof. vm_compute. repeat split; reflexivity. Qed.
