(* C07 — face / normal / neighbour / edge structure of polyhedra.
   Model/Structure.v: neighbour relation, edge list, Euler number, per-face certificate.
   Partial: Euler's relation and "angular sort of points in convex position yields the hull
   cycle" are not proved; the full certificate is evaluated exactly per instance instead. *)
From Coq Require Import Reals List Bool Arith.
Require Import Cox.Num.Ops Cox.Geo.Vec Cox.Model.Mesh Cox.Model.Structure Cox.Model.Entry
  Cox.Thm.StructureThm Cox.Thm.ClosedThm Cox.Thm.MeshThm Cox.Thm.HandshakeThm.
Import ListNotations.

(* neighbour lists: j is listed for i exactly when faces i and j are distinct and share an edge *)
Theorem C07_neighbors_iff_shared_edge :
  forall F i j f, nth_error F i = Some f ->
    ((exists l, nth_error (neighbors_of F) i = Some l /\ In j l) <-> is_neighbor F i j).
Proof. exact neighbors_of_spec. Qed.
Print Assumptions C07_neighbors_iff_shared_edge.

(* ... and the relation is symmetric *)
Theorem C07_neighbors_symmetric : forall F i j, is_neighbor F i j -> is_neighbor F j i.
Proof. exact is_neighbor_sym. Qed.
Print Assumptions C07_neighbors_symmetric.

(* certificate soundness: a negative support number puts EVERY other vertex strictly inside the
   face plane (so the face is a facet of the hull with outward normal, and no coplanar triangle
   was left unmerged); the planarity number bounds the deviation of every face vertex *)
Theorem C07_certificate_support :
  forall (V : list (vec3 R)) nv f i,
    (i < nv)%nat -> existsb (Nat.eqb i) f = false ->
    (nth 1 (face_cert Rops V nv f) 0 < 0)%R ->
    (vdot Rops (fnormal Rops V f) (vsub Rops (getv Rops V i) (fpoint Rops V f)) < 0)%R.
Proof. exact face_cert_support_sound. Qed.
Print Assumptions C07_certificate_support.

Theorem C07_certificate_planarity :
  forall (V : list (vec3 R)) nv f i,
    (i < nv)%nat -> existsb (Nat.eqb i) f = true ->
    (Rabs (vdot Rops (fnormal Rops V f) (vsub Rops (getv Rops V i) (fpoint Rops V f)))
     <= nth 0 (face_cert Rops V nv f) 0)%R.
Proof. exact face_cert_planarity_sound. Qed.
Print Assumptions C07_certificate_planarity.

(* simplices: the index-level closedness test gives the closed-chain hypothesis of C01 *)
Theorem C07_simplices_closed :
  forall (V : list (vec3 R)) tr, closedb tr = true -> closed (resolve Rops V tr).
Proof. exact closedb_closed. Qed.
Print Assumptions C07_simplices_closed.

(* edges: for a face list of ANY size in which every directed edge occurs once and its reverse once (what the certificate
   checks per instance) and no edge is degenerate, reversal pairs the directed edges i<j with those i>j, so the edge list
   Polyhedron.edges (directed edges with i < j) has exactly half as many entries as the faces have corners:
   num_edges = (sum of face sizes) / 2 *)
Theorem C07_handshake :
  forall F, manifold_edges F = true -> (forall e, In e (dedges_all F) -> fst e <> snd e) ->
    (2 * length (edges_lt F) = list_sum (map (@length nat) F))%nat
    /\ Permutation.Permutation (map rev2 (filter ltb2 (dedges_all F))) (filter gtb2 (dedges_all F)).
Proof.
  intros F HM HL. split.
  - rewrite <- dedges_count. apply handshake; assumption.
  - apply reversal_bijection. apply manifold_edges_spec. exact HM.
Qed.
Print Assumptions C07_handshake.

(* non-vacuity: the cube *)
Example C07_cube :
  let F := [[0;3;2;1]; [4;5;6;7]; [0;1;5;4]; [1;2;6;5]; [2;3;7;6]; [3;0;4;7]]%nat in
  manifold_edges F = true /\ euler F = 2%Z /\ length (edges_lt F) = 12%nat
  /\ nth 0 (neighbors_of F) [] = [2;3;4;5]%nat
  /\ forallb (fun e => negb (Nat.eqb (fst e) (snd e))) (dedges_all F) = true      (* no degenerate edge: handshake applies *)
  /\ list_sum (map (@length nat) F) = 24%nat.
Proof. vm_compute. repeat split; reflexivity. Qed.
