(* C09 — results are covariant under rotation, translation, scaling and relabelling.
   Theorems about the exact measures (which C01/C02 prove the code computes on closed chains);
   thresholds with absolute tolerances in vendored code are known findings, see DESIGN.md. *)
From Coq Require Import Reals List Permutation.
Require Import Cox.Num.Ops Cox.Geo.Vec Cox.Model.Mesh Cox.Thm.MeshThm Cox.Thm.ScalingThm Cox.Thm.RigidThm
  Cox.Model.Inside Cox.Thm.InsideThm Cox.Model.FormFactor Cox.Thm.FormFactorThm Cox.Thm.Rigid2.
Local Open Scope R_scope.

(* scaling: volumes by s^3, centroids by s, inertia tensors by s^5 *)
Theorem C09_scaling :
  forall s TT,
    cone0 Rops (map (tscale s) TT) = s ^ 3 * cone0 Rops TT
    /\ (forall i j, spec_inertia Rops i j (map (tscale s) TT) = s ^ 5 * spec_inertia Rops i j TT)
    /\ (forall i, s <> 0 -> cone0 Rops TT <> 0 -> spec_centroid Rops i (map (tscale s) TT) = s * spec_centroid Rops i TT).
Proof.
  intros s TT. split; [apply cone0_scale|]. split; [intros; apply inertia_scale | intros; apply centroid_scale; assumption].
Qed.
Print Assumptions C09_scaling.

(* translation of a closed chain: volume unchanged, first moments shift by d V, second moments by the
   parallel-axis terms *)
Theorem C09_translation :
  forall d TT, closed TT ->
    cone0 Rops (map (tshift Rops d) TT) = cone0 Rops TT
    /\ (forall i, cone1 Rops i (map (tshift Rops d) TT) = cone1 Rops i TT - vcomp i d * cone0 Rops TT)
    /\ (forall i j, cone2 Rops i j (map (tshift Rops d) TT)
          = cone2 Rops i j TT - vcomp i d * cone1 Rops j TT - vcomp j d * cone1 Rops i TT + vcomp i d * vcomp j d * cone0 Rops TT).
Proof.
  intros d TT Hc. split; [apply cone0_shift; exact Hc|]. split; [intros; apply cone1_shift; exact Hc | intros; apply cone2_shift; exact Hc].
Qed.
Print Assumptions C09_translation.

(* rotations (and any linear map): volume times det, the centroid moves with the shape; a reflection flips the
   signed volume *)
Theorem C09_linear_maps :
  forall M TT,
    cone0 Rops (map (tmap M) TT) = mdet M * cone0 Rops TT
    /\ (mdet M = 1 -> cone0 Rops (map (tmap M) TT) = cone0 Rops TT)
    /\ (forall i, (i < 3)%nat -> mdet M <> 0 -> cone0 Rops TT <> 0 ->
          spec_centroid Rops i (map (tmap M) TT)
          = vx (mrow i M) * spec_centroid Rops 0 TT + vy (mrow i M) * spec_centroid Rops 1 TT + vz (mrow i M) * spec_centroid Rops 2 TT).
Proof.
  intros M TT. split; [apply cone0_linear|]. split; [apply cone0_rotation | intros; apply centroid_linear; assumption].
Qed.
Print Assumptions C09_linear_maps.

(* relabelling: the order of the triangles and the starting vertex of each triangle are irrelevant;
   polygon containment is invariant under cyclic shifts; the form factor acquires exp(-i q.t) *)
Theorem C09_relabelling :
  forall TT TT', Permutation TT TT' ->
    cone0 Rops TT = cone0 Rops TT' /\ (forall i, cone1 Rops i TT = cone1 Rops i TT') /\ (forall i j, cone2 Rops i j TT = cone2 Rops i j TT').
Proof. exact cone_perm. Qed.
Print Assumptions C09_relabelling.
Theorem C09_cyclic_shift_containment :
  forall (p : vec2 R) (V : list (vec2 R)), inside_polygon Rops p (roll V) = inside_polygon Rops p V.
Proof. exact inside_polygon_cyclic_shift. Qed.
Print Assumptions C09_cyclic_shift_containment.
Theorem C09_form_factor_phase :
  forall (n q t : vec3 R) (V : list (vec3 R)),
    polygon_ff n q (map (fun v => vadd Rops v t) V) = cmul (cexp_i (- vdot Rops q t)) (polygon_ff n q V).
Proof. exact ff_translation. Qed.
Print Assumptions C09_form_factor_phase.

(* second moments transform as tensors under EVERY linear map, P(M x) = det M * M P(x) M^T, and the inertia tensor about the
   origin rotates with the shape under every orthogonal map: I(M x) = det M * M I(x) M^T (rotations: M I M^T) *)
Theorem C09_inertia_tensor_rotates :
  forall M i j TT, (i < 3)%nat -> (j < 3)%nat ->
    cone2 Rops i j (map (tmap M) TT) = mdet M * congr M i j (fun k l => cone2 Rops k l TT)
    /\ (orthogonal M -> spec_inertia Rops i j (map (tmap M) TT) = mdet M * congr M i j (fun k l => spec_inertia Rops k l TT)).
Proof. intros M i j TT Hi Hj. split; [apply cone2_linear | apply inertia_orthogonal]; assumption. Qed.
Print Assumptions C09_inertia_tensor_rotates.
