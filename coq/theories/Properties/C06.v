(* C06 — 2-D point containment.
   Model: Model/Inside.v (inside_polygon = Polygon.is_inside's winding number with
   lexicographic L/R tie-breaking; inside_ellipse_box = Ellipse.is_inside as found;
   crossing_parity / inside_ellipse = exact membership specifications).           *)
From Coq Require Import Reals QArith Qreals List ZArith Bool Lra.
Require Import Cox.Num.Ops Cox.Num.Transfer Cox.Geo.Vec Cox.Model.Inside
  Cox.Thm.InsideThm Cox.Thm.InsideTransfer Cox.Thm.WindingThm.
Import ListNotations.

(* The answer does not depend on which vertex the cycle starts from (any polygon, any point) *)
Theorem C06_polygon_cyclic_shift :
  forall (p : vec2 R) (V : list (vec2 R)), inside_polygon Rops p (roll V) = inside_polygon Rops p V.
Proof. exact inside_polygon_cyclic_shift. Qed.
Print Assumptions C06_polygon_cyclic_shift.

(* Reversing the vertex order negates the turn sum ... *)
Theorem C06_polygon_reverse_negates :
  forall (p : vec2 R) (V : list (vec2 R)), turn_sum Rops p (rev V) = (- turn_sum Rops p V)%Z.
Proof. exact turn_sum_reverse. Qed.
Print Assumptions C06_polygon_reverse_negates.

(* ... hence containment is irrespective of vertex orientation whenever the turn sum is even
   (partial: evenness for closed cycles and off-boundary points is checked at run time by the
   harness on every judged point, not proved) *)
Theorem C06_polygon_orientation_free_partial :
  forall (p : vec2 R) (V : list (vec2 R)), Z.even (turn_sum Rops p V) = true ->
    inside_polygon Rops p (rev V) = inside_polygon Rops p V.
Proof. exact inside_polygon_reverse. Qed.
Print Assumptions C06_polygon_orientation_free_partial.

(* THE MAIN THEOREM. For every vertex cycle (any length, convex or not, either orientation, self-touching or not) and
   every point that lies on none of the closed segments of the fan from the first vertex (polygon edges and chords),
   the code's turn sum - with its lexicographic tie-breaking for points sharing a coordinate with a vertex - equals
   the signed fan indicator: the sum over the fan triangles of +2 / -2 / 0 for a point strictly inside a
   counter-clockwise / clockwise triangle / outside.  That indicator is the density whose integral is the shoelace
   area (C04), i.e. membership in the polygon counted with orientation. *)
Theorem C06_triangle :
  forall u v w : vec2 R, off_seg u v -> off_seg v w -> off_seg w u ->
    (ht u v + ht v w + ht w u)%Z = tri_ind u v w.
Proof. exact triangle_turns. Qed.
Print Assumptions C06_triangle.

Theorem C06_polygon_is_sum_of_fan_triangles :
  forall (p a b : vec2 R) (l : list (vec2 R)), turn_sum Rops p (a :: b :: l) = zfan p a b l.
Proof. exact turn_sum_is_fan. Qed.
Print Assumptions C06_polygon_is_sum_of_fan_triangles.

Theorem C06_winding_is_signed_fan_indicator :
  forall (p a b : vec2 R) (l : list (vec2 R)), fan_off p a b l ->
    turn_sum Rops p (a :: b :: l) = fan_ind p a b l
    /\ inside_polygon Rops p (a :: b :: l) = negb (Z.eqb (Z.div (fan_ind p a b l) 2) 0).
Proof. intros p a b l H. split; [apply winding_is_fan_indicator | apply inside_polygon_is_fan_indicator]; exact H. Qed.
Print Assumptions C06_winding_is_signed_fan_indicator.

(* ... so, off those segments, the answer is independent of the listing order (no evenness hypothesis left) *)
Theorem C06_polygon_orientation_free :
  forall (p a b : vec2 R) (l : list (vec2 R)), fan_off p a b l ->
    inside_polygon Rops p (rev (a :: b :: l)) = inside_polygon Rops p (a :: b :: l).
Proof. exact inside_polygon_orientation_free. Qed.
Print Assumptions C06_polygon_orientation_free.

(* the hypothesis is satisfiable on a point sharing its x coordinate with a vertex (tie-breaking case) *)
Example C06_fan_off_example :
  let p := (2, 1 / 2)%R in
  fan_off p (0,0)%R (4,0)%R [(4,4); (2,1); (0,4)]%R.
Proof.
  cbn [fan_off]. unfold off_seg, cr, dt, psub, px, py; cbn [fst snd osub Rops].
  repeat split; intros [H1 H2]; lra.
Qed.

(* executable model = real model on the embedded input *)
Theorem C06_polygon_transfer :
  forall p V, inside_polygon Qops p V = inside_polygon Rops (Q2R2 p) (map Q2R2 V).
Proof. exact inside_polygon_transfer. Qed.
Print Assumptions C06_polygon_transfer.

(* Circle: norm <= r is the quadratic membership test *)
Theorem C06_circle_norm_test :
  forall x y z r : R, (0 <= r)%R ->
    (sqrt (x * x + y * y + z * z) <= r <-> x * x + y * y + z * z <= r * r)%R.
Proof. exact norm_le_iff_sumsq. Qed.
Print Assumptions C06_circle_norm_test.

(* Ellipse.is_inside as found is NOT membership: refuted by a computed witness *)
Theorem C06_ellipse_is_inside_refuted :
  exists (c : vec2 Q) (a b : Q) (p : vec2 Q),
    inside_ellipse_box Qops c a b p = true /\ inside_ellipse Qops c a b p = false.
Proof. exists (0, 0)%Q, 1%Q, 2%Q, (-100, 0)%Q. vm_compute. split; reflexivity. Qed.
Print Assumptions C06_ellipse_is_inside_refuted.

(* ... and correct on the sub-domain where the box and the ellipse agree: every point of the
   ellipse passes the box test (the code never rejects a member) *)
Theorem C06_ellipse_box_complete_partial :
  forall (c : vec2 R) (a b : R) (p : vec2 R), (0 < a)%R -> (0 < b)%R ->
    inside_ellipse Rops c a b p = true -> inside_ellipse_box Rops c a b p = true.
Proof.
  intros [cx cy] a b [x y] Ha Hb. unfold inside_ellipse, inside_ellipse_box, osq, px, py.
  cbn [oleb oadd osub odiv omul o1 Rops fst snd]. rewrite Rleb_true, andb_true_iff, !Rleb_true.
  set (u := ((x - cx) / a)%R). set (v := ((y - cy) / b)%R). intros H. split; nra.
Qed.
Print Assumptions C06_ellipse_box_complete_partial.

(* non-vacuity / sanity: a concave (arrow) polygon, a point in the notch, a point inside, and a
   point sharing its x coordinate with a vertex *)
Example C06_arrow :
  let V := [(0,0); (4,0); (4,4); (2,1); (0,4)]%Q in
  inside_polygon Qops (2, 3)%Q V = false /\ inside_polygon Qops (1, 1)%Q V = true
  /\ inside_polygon Qops (2, 1 # 2)%Q V = true /\ crossing_parity Qops (2, 1 # 2)%Q V = true
  /\ Z.even (turn_sum Qops (2, 1 # 2)%Q V) = true.
Proof. vm_compute. repeat split; reflexivity. Qed.
