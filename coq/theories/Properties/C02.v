(* C02 — general closed oriented meshes: Eberly centroid and (signed) Kallay inertia are
   the exact cone moments; with |det| the rule is exact only on star-shaped solids. *)
From Coq Require Import Reals QArith Qreals List Lia Lra.
Require Import Cox.Num.Ops Cox.Num.Transfer Cox.Geo.Vec Cox.Geo.Sums Cox.Model.Mesh Cox.Model.Entry
  Cox.Thm.MeshThm Cox.Thm.PolyhedronThm Cox.Thm.ClosedThm Cox.Thm.MeshTransfer Cox.Thm.TetraMoments Cox.Model.Polygon Cox.Thm.FaceVolume.
Import ListNotations.
Local Open Scope R_scope.

Theorem C02_centroid :
  forall i TT, closed TT -> cone0 Rops TT <> 0 ->
    eberly_centroid Rops i TT = spec_centroid Rops i TT.
Proof. exact eberly_centroid_exact. Qed.
Print Assumptions C02_centroid.

Theorem C02_volume_accumulator :
  forall TT, closed TT -> eberly_vol Rops TT = 6 * cone0 Rops TT.
Proof. exact eberly_vol_exact. Qed.
Print Assumptions C02_volume_accumulator.

(* inertia with signed tetrahedron volumes (the repaired code): exact for EVERY closed mesh,
   convex, star-shaped or not, wherever it sits *)
Theorem C02_inertia :
  forall vol c i j TT, (i < 3)%nat -> (j < 3)%nat ->
    closed TT -> vol = cone0 Rops TT -> vol <> 0 ->
    (forall k, vcomp k c = spec_centroid Rops k TT) ->
    kallay_inertia Rops false vol c i j TT = spec_inertia Rops i j TT.
Proof. exact kallay_inertia_signed_exact. Qed.
Print Assumptions C02_inertia.

(* the code as found (abs of the determinants) agrees only when every centred tetrahedron is
   non-negatively oriented, i.e. the solid is star-shaped about the reference point *)
Theorem C02_inertia_abs_star_shaped_partial :
  forall i j TT, (forall t, In t TT -> 0 <= tdet Rops t) ->
    kallay_raw Rops true i j TT = kallay_raw Rops false i j TT.
Proof. exact kallay_abs_star_shaped_partial. Qed.
Print Assumptions C02_inertia_abs_star_shaped_partial.

(* ... and is refuted in general: a closed chain on which abs changes I_zz.
   (a unit cube's 12 triangles seen from the exterior point (3,3,3): the faces that point
   towards the reference point give negatively oriented tetrahedra) *)
Definition cubeV : list (vec3 Q) :=
  [(0,0,0); (1,0,0); (1,1,0); (0,1,0); (0,0,1); (1,0,1); (1,1,1); (0,1,1)]%Q.
Definition cubeT : list (nat*nat*nat) :=
  [(0,2,1); (0,3,2); (4,5,6); (4,6,7); (0,1,5); (0,5,4); (1,2,6); (1,6,5);
   (2,3,7); (2,7,6); (3,0,4); (3,4,7)]%nat.
Theorem C02_inertia_abs_refuted :
  let TT := map (tshift Qops (3,3,3)%Q) (resolve Qops cubeV cubeT) in
  closedb cubeT = true /\
  ~ (kallay_raw Qops true 2 2 TT == kallay_raw Qops false 2 2 TT)%Q.
Proof. vm_compute. split; [reflexivity | discriminate]. Qed.
Print Assumptions C02_inertia_abs_refuted.

Example C02_cube_hypotheses :
  closedb cubeT = true /\ (cone0 Qops (resolve Qops cubeV cubeT) == 1)%Q.
Proof. vm_compute. split; reflexivity. Qed.

(* level 0 (shared with C01): the tetrahedron moments are the integrals of 1, x_i, x_i x_j over the signed tetrahedron *)
Theorem C02_tetrahedron_moments_are_integrals :
  forall (t : @tri R) (i j : nat),
    tet_int (fun _ => 1) t = m0 Rops t
    /\ tet_int (fun X => vcomp i X) t = m1 Rops i t
    /\ tet_int (fun X => vcomp i X * vcomp j X) t = m2 Rops i j t.
Proof. intros t i j. repeat split; [apply m0_is_integral | apply m1_is_integral | apply m2_is_integral]. Qed.
Print Assumptions C02_tetrahedron_moments_are_integrals.

(* Polyhedron.volume = sum over faces of (-d_f) A_f / 3.  For every planar face (any number of vertices) listed
   counter-clockwise about its normal, the code's per-face term equals three times the signed volume of the cone over the
   face, i.e. three times the sum of m0 over the face's fan triangles; and that cone volume is v0 . (vector area) / 6. *)
Theorem C02_face_volume_term :
  forall a b l lam,
    let V := a :: b :: l in let N := pnormal Rops V in let p := argmax3 Rops N in
    A2 Rops V = vscale Rops lam N -> vcomp p N <> 0 -> 0 <= sproj Rops p V / vcomp p N ->
    face_vol_term Rops V = 3 * cone0 Rops (fan_tris a b l)
    /\ 6 * cone0 Rops (fan_tris a b l) = vdot Rops a (A2 Rops V).
Proof. intros a b l lam V N p H1 H2 H3. split; [exact (face_volume_term_exact a b l lam H1 H2 H3) | apply face_cone_volume]. Qed.
Print Assumptions C02_face_volume_term.
