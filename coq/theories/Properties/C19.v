(* C19 — GSD, repr and HOOMD representations round-trip the shape.
   Model/Roundtrip.v models gsd_shape_spec and from_gsd_type_shapes (type dispatch, dimensions,
   convex-then-general fallback, missing/unknown type -> ValueError) over opaque geometry; the two
   facts about constructors it relies on (ConvexPolygon accepts exactly convex position; stored convex
   vertices are a fixed point of its re-ordering) are section parameters, checked by correspondence.
   repr / to_json / to_hoomd are decided by correspondence only (partial). *)
From Coq Require Import List Bool Arith.
Require Import Cox.Model.Roundtrip Cox.Thm.RoundtripThm.

Theorem C19_gsd_roundtrip :
  forall (num geo faces : Type) (conv : geo -> bool) (reorder : geo -> geo) (twice half : num -> num),
    (forall x, half (twice x) = x) ->
    forall s : shape num geo faces,
      wf num geo faces conv reorder s ->
      from_gsd num geo faces conv reorder half (gsd_spec num geo faces twice s) (dim num geo faces s)
      = Some (expected num geo faces conv reorder s).
Proof. exact gsd_roundtrip. Qed.
Print Assumptions C19_gsd_roundtrip.

Theorem C19_missing_or_unknown_type_raises :
  forall (num geo faces : Type) (conv : geo -> bool) (reorder : geo -> geo) (half : num -> num) dims,
    from_gsd num geo faces conv reorder half (SMissing num geo faces) dims = None
    /\ from_gsd num geo faces conv reorder half (SUnknown num geo faces) dims = None.
Proof. intros. apply gsd_bad_type_raises. Qed.

(* the executable class dispatch (run against the implementation on every spec) gives, for the spec
   each class writes, that class or a subclass of it *)
Theorem C19_dispatch_class :
  forall k convex, (needs_convex k = true -> convex = true) ->
    exists k', dispatch_class (fst (spec_type k)) (snd (spec_type k)) (dims_of k) convex = Some k'
               /\ same_or_sub k k' = true.
Proof. intros k convex H. exact (dispatch_roundtrip_class k convex H). Qed.
Print Assumptions C19_dispatch_class.

(* a non-convex cycle in a Polygon spec yields a Polygon *)
Example C19_nonconvex_polygon_spec : dispatch_class TPolygon false 2 false = Some KPolygon.
Proof. reflexivity. Qed.
