(* C19 — GSD, repr and HOOMD representations round-trip the shape.
   Model/Roundtrip.v models gsd_shape_spec and from_gsd_type_shapes (type dispatch, dimensions,
   convex-then-general fallback, missing/unknown type -> ValueError) over opaque geometry; the two
   facts about constructors it relies on (ConvexPolygon accepts exactly convex position; stored convex
   vertices are a fixed point of its re-ordering) are section parameters, checked by correspondence.
   repr / to_json are decided by correspondence only (partial); for to_hoomd the mathematics of 'the one centred shape' is
   proved (C19_hoomd_centred_shape), its implementation is decided by correspondence. *)
From Coq Require Import List Bool Arith.
Require Import Cox.Model.Roundtrip Cox.Thm.RoundtripThm.

Theorem C19_gsd_roundtrip :
  forall (num geo faces : Type) (conv : geo -> bool) (reorder : geo -> geo) (twice half : num -> num),
    (forall x, half (twice x) = x) ->
    forall s : shape num geo faces,
      wf num geo faces conv reorder s ->
      from_gsd num geo faces conv reorder half (gsd_spec num geo faces twice s) (dim num geo faces s)
      = Some (expected num geo faces conv reorder s).
Proof. exact gsd_roundtrip. Qed.
Print Assumptions C19_gsd_roundtrip.

Theorem C19_missing_or_unknown_type_raises :
  forall (num geo faces : Type) (conv : geo -> bool) (reorder : geo -> geo) (half : num -> num) dims,
    from_gsd num geo faces conv reorder half (SMissing num geo faces) dims = None
    /\ from_gsd num geo faces conv reorder half (SUnknown num geo faces) dims = None.
Proof. intros. apply gsd_bad_type_raises. Qed.
Print Assumptions C19_missing_or_unknown_type_raises.

(* the executable class dispatch (run against the implementation on every spec) gives, for the spec
   each class writes, that class or a subclass of it *)
Theorem C19_dispatch_class :
  forall k convex, (needs_convex k = true -> convex = true) ->
    exists k', dispatch_class (fst (spec_type k)) (snd (spec_type k)) (dims_of k) convex = Some k'
               /\ same_or_sub k k' = true.
Proof. intros k convex H. exact (dispatch_roundtrip_class k convex H). Qed.
Print Assumptions C19_dispatch_class.

(* a non-convex cycle in a Polygon spec yields a Polygon *)
Example C19_nonconvex_polygon_spec : dispatch_class TPolygon false 2 false = Some KPolygon.
Proof. reflexivity. Qed.


(* to_hoomd describes the shape translated so that its centroid is at the origin: for every closed surface with centroid c the
   translated surface has the same volume, centroid (0,0,0) and second moments P - V c c^T (so its inertia tensor about the
   origin IS the inertia tensor about the centroid) *)
Require Import Reals Cox.Num.Ops Cox.Geo.Vec Cox.Model.Mesh Cox.Thm.MeshThm Cox.Thm.Centred.
Theorem C19_hoomd_centred_shape :
  forall (c : vec3 R) (TT : list (@tri R)), closed TT -> cone0 Rops TT <> 0%R ->
    (forall i, vcomp i c = spec_centroid Rops i TT) ->
    cone0 Rops (map (tshift Rops c) TT) = cone0 Rops TT
    /\ (forall i, cone1 Rops i (map (tshift Rops c) TT) = 0%R)
    /\ (forall i, spec_centroid Rops i (map (tshift Rops c) TT) = 0%R)
    /\ (forall i j, cone2 Rops i j (map (tshift Rops c) TT) = (cone2 Rops i j TT - cone0 Rops TT * vcomp i c * vcomp j c)%R).
Proof. exact centred_shape. Qed.
Print Assumptions C19_hoomd_centred_shape.
