(* C14 — distance_to_surface is the radial distance from the centre to the boundary. *)
From Coq Require Import Reals.
Require Import Cox.Num.Ops Cox.Geo.Vec Cox.Model.Special Cox.Gen.Scalars Cox.Thm.DistanceThm.
Local Open Scope R_scope.

(* Ellipse (definition regenerated from the source on every run): for EVERY real theta the point
   centre + d (cos theta, sin theta) satisfies the ellipse equation, and d > 0 *)
Theorem C14_ellipse :
  forall a b cx cy cz theta, 0 < a -> 0 < b ->
    let d := ellipse_distance_to_surface a b cx cy cz theta in
    (d * cos theta / a) ^ 2 + (d * sin theta / b) ^ 2 = 1 /\ 0 < d.
Proof. exact ellipse_distance_on_boundary. Qed.
Print Assumptions C14_ellipse.

(* Convex polygon (specification used by the correspondence): the point at distance
   cross(a,e)/cross(u,e) along the unit direction u is the point a + s e of the edge line *)
Theorem C14_ray_edge :
  forall a e u : vec2 R, pcross Rops u e <> 0 ->
    let d := pcross Rops a e / pcross Rops u e in
    let s := pcross Rops a u / pcross Rops u e in
    pscale Rops d u = padd Rops a (pscale Rops s e).
Proof. exact ray_edge_intersection. Qed.
Print Assumptions C14_ray_edge.

Theorem C14_distance_is_norm :
  forall (u : vec2 R) (d : R), pdot Rops u u = 1 -> 0 <= d ->
    sqrt (pdot Rops (pscale Rops d u) (pscale Rops d u)) = d.
Proof. exact ray_hit_distance. Qed.

(* any real angle, not only [0, 2 pi) *)
Theorem C14_any_real_angle :
  forall theta (k : nat),
    (cos (theta + 2 * INR k * PI) = cos theta /\ sin (theta + 2 * INR k * PI) = sin theta)
    /\ (cos (theta - 2 * INR k * PI) = cos theta /\ sin (theta - 2 * INR k * PI) = sin theta).
Proof. exact direction_periodic. Qed.

(* partial: the code's sector-selection (atan2 binning, slope/intercept branches) for polygons and the
   arc patches of spheropolygons are not modelled step by step; the implementation's output is judged
   against the definition itself (exact distance of centre + d u to the core's boundary = r). *)
