(* C14 — distance_to_surface is the radial distance from the centre to the boundary. *)
From Coq Require Import Reals.
From Coq Require Import List Lra.
Import ListNotations.
Require Import Cox.Num.Ops Cox.Geo.Vec Cox.Model.Special Cox.Gen.Scalars Cox.Thm.DistanceThm Cox.Thm.RayCastThm
  Cox.Model.DistanceBranches Cox.Thm.DistanceBranchesThm.
Local Open Scope R_scope.

(* Ellipse (definition regenerated from the source on every run): for EVERY real theta the point
   centre + d (cos theta, sin theta) satisfies the ellipse equation, and d > 0 *)
Theorem C14_ellipse :
  forall a b cx cy cz theta, 0 < a -> 0 < b ->
    let d := ellipse_distance_to_surface a b cx cy cz theta in
    (d * cos theta / a) ^ 2 + (d * sin theta / b) ^ 2 = 1 /\ 0 < d.
Proof. exact ellipse_distance_on_boundary. Qed.
Print Assumptions C14_ellipse.

(* Convex polygon (specification used by the correspondence): the point at distance
   cross(a,e)/cross(u,e) along the unit direction u is the point a + s e of the edge line *)
Theorem C14_ray_edge :
  forall a e u : vec2 R, pcross Rops u e <> 0 ->
    let d := pcross Rops a e / pcross Rops u e in
    let s := pcross Rops a u / pcross Rops u e in
    pscale Rops d u = padd Rops a (pscale Rops s e).
Proof. exact ray_edge_intersection. Qed.
Print Assumptions C14_ray_edge.

Theorem C14_distance_is_norm :
  forall (u : vec2 R) (d : R), pdot Rops u u = 1 -> 0 <= d ->
    sqrt (pdot Rops (pscale Rops d u) (pscale Rops d u)) = d.
Proof. exact ray_hit_distance. Qed.
Print Assumptions C14_distance_is_norm.

(* Convex region with ANY number of edges, written as half-planes n_i . x <= c_i with the centre strictly inside (c_i > 0);
   for a direction u each edge is the pair (m_i, c_i) = (n_i . u, c_i).  The radial distance is exit_t = min over the edges
   facing u of c_i / m_i:  every point of the ray up to that distance is in the region, the point AT that distance lies on
   an edge line (so it is the boundary point), the distance is positive, and it exists as soon as one edge faces u
   (always, for a bounded region).  This is the definition the correspondence judges ConvexPolygon / ConvexSpheropolygon
   straight sections against. *)
Theorem C14_convex_radial_distance :
  forall (H : list hp) (t : R), all_pos H -> exit_t H = Some t ->
    (forall s, 0 <= s <= t -> forall h, In h H -> fst h * s <= snd h)
    /\ 0 < t /\ (exists h, In h H /\ fst h * t = snd h).
Proof.
  intros H t Hp E. split; [intros s Hs; exact (ray_inside_until_exit H t s Hp E Hs)|exact (ray_exit_is_tight H t Hp E)].
Qed.
Print Assumptions C14_convex_radial_distance.

Theorem C14_convex_radial_distance_exists :
  forall H : list hp, (exists h, In h H /\ 0 < fst h) -> exists t, exit_t H = Some t.
Proof. exact ray_exit_exists. Qed.
Print Assumptions C14_convex_radial_distance_exists.

(* THE CODE'S OWN FORMULAS for one edge (x1,y1)-(x2,y2) of the centred polygon - the vertical-edge, horizontal-edge and generic (slope /
   intercept / tan) branches of ConvexPolygon._distance_to_surface_from, Model/DistanceBranches.v, run float-extracted against the
   implementation - return the parameter t of the point t (cos th, sin th) at which the ray meets the edge's line, whenever that point lies
   ahead of the centre and the ray is not parallel to the edge *)
Theorem C14_edge_branches_are_ray_parameter :
  forall x1 y1 x2 y2 t th : R,
    0 < t -> on_line x1 y1 x2 y2 t th ->
    (x2 - x1) * sin th - (y2 - y1) * cos th <> 0 ->
    (x1 <> x2 -> y1 <> y2 -> cos th <> 0) ->
    edge_distance x1 y1 x2 y2 th = t.
Proof. exact edge_distance_is_ray_parameter. Qed.
Print Assumptions C14_edge_branches_are_ray_parameter.

(* Rounded corner of a spheropolygon: along the unit direction u the circle of radius r about the vertex v is met at
   t = u.v + sqrt(r^2 - (u x v)^2), and no point of the circle on that line is farther *)
Theorem C14_rounded_corner :
  forall ux uy vx vy r : R, ux * ux + uy * uy = 1 -> (ux * vy - uy * vx) ^ 2 <= r ^ 2 ->
    let t := ux * vx + uy * vy + sqrt (r ^ 2 - (ux * vy - uy * vx) ^ 2) in
    (t * ux - vx) ^ 2 + (t * uy - vy) ^ 2 = r ^ 2
    /\ forall t', (t' * ux - vx) ^ 2 + (t' * uy - vy) ^ 2 = r ^ 2 -> t' <= t.
Proof. exact ray_circle_hit. Qed.
Print Assumptions C14_rounded_corner.

Example C14_square_example :
  (* unit square centred at the origin, direction u = (1, 0): edges facing u have m = 1, c = 1/2 *)
  exit_t [(1, 1/2); (0, 1/2); (-1, 1/2); (0, 1/2)] = Some (1/2 / 1).
Proof.
  cbn [exit_t]. repeat (destruct (Rlt_dec _ _); try lra). reflexivity.
Qed.

(* any real angle, not only [0, 2 pi) *)
Theorem C14_any_real_angle :
  forall theta (k : nat),
    (cos (theta + 2 * INR k * PI) = cos theta /\ sin (theta + 2 * INR k * PI) = sin theta)
    /\ (cos (theta - 2 * INR k * PI) = cos theta /\ sin (theta - 2 * INR k * PI) = sin theta).
Proof. exact direction_periodic. Qed.
Print Assumptions C14_any_real_angle.

(* partial: the code's sector-selection (atan2 binning) for polygons and the
   arc patches of spheropolygons are not modelled step by step; the implementation's output is judged
   against the definition itself (exact distance of centre + d u to the core's boundary = r). *)
