(* C11 — Rounded shapes obey Steiner formulas; curvature descriptors match definitions.
   Model/Steiner.v mirrors the edge loops of the code over E = [(L_e, phi_e)]. The Steiner
   polynomial with the code's normalisation of M IS the property's specification; that it is
   the measure of the Minkowski sum is not proved. *)
From Coq Require Import Reals List.
Require Import Cox.Geo.Sums Cox.Model.Steiner Cox.Thm.SteinerThm.
Local Open Scope R_scope.

Theorem C11_spheropolyhedron_volume :
  forall V S r E,
    sphero_volume V S r E = V + S * r + 4 * PI * mean_curvature E * r ^ 2 + 4 / 3 * PI * r ^ 3.
Proof. exact sphero_volume_steiner. Qed.
Print Assumptions C11_spheropolyhedron_volume.

Theorem C11_spheropolyhedron_area :
  forall S r E, sphero_area S r E = S + 8 * PI * mean_curvature E * r + 4 * PI * r ^ 2.
Proof. exact sphero_area_steiner. Qed.
Print Assumptions C11_spheropolyhedron_area.

Theorem C11_spheropolyhedron_mean_curvature :
  forall r E, sphero_mean_curvature r E = mean_curvature E + r.
Proof. exact sphero_curvature. Qed.
Print Assumptions C11_spheropolyhedron_mean_curvature.

Theorem C11_radius_zero_coincides :
  forall V S E,
    sphero_volume V S 0 E = V /\ sphero_area S 0 E = S /\ sphero_mean_curvature 0 E = mean_curvature E.
Proof. exact sphero_r0. Qed.
Print Assumptions C11_radius_zero_coincides.

Theorem C11_spheropolygon_area :
  forall A P r, 0 <= P -> 0 <= r -> spg_area A P r = Rabs A + P * r + PI * r ^ 2.
Proof. exact spheropolygon_area. Qed.
Print Assumptions C11_spheropolygon_area.

Theorem C11_spheropolygon_perimeter : forall P r, spg_perimeter P r = P + 2 * PI * r.
Proof. exact spheropolygon_perimeter. Qed.
Print Assumptions C11_spheropolygon_perimeter.

Theorem C11_spheropolygon_radius_zero : forall A P, spg_area A P 0 = Rabs A /\ spg_perimeter P 0 = P.
Proof. exact spheropolygon_r0. Qed.
Print Assumptions C11_spheropolygon_radius_zero.

(* dihedral angle: arccos(-n1.n2) is pi minus the angle between the outward normals, in [0, pi] *)
Theorem C11_dihedral :
  forall c, -1 <= c <= 1 -> PI - dihedral c = acos c /\ 0 <= dihedral c <= PI.
Proof. intros c H. split; [apply exterior_angle | apply dihedral_range]; exact H. Qed.
Print Assumptions C11_dihedral.

(* non-vacuity: unit cube, 12 edges of length 1 with dihedral pi/2: M = 12 * (pi/2) / (8 pi) = 3/4 *)
Example C11_cube_mean_curvature :
  mean_curvature (repeat (1, PI / 2) 12) = 3 / 4.
Proof. unfold mean_curvature. simpl. field. apply PI_neq0. Qed.
