(* C13 — bounding, bounded, circum- and in-balls satisfy their definitions. *)
From Coq Require Import Reals QArith List Lra.
Require Import Cox.Num.Ops Cox.Geo.Vec Cox.Geo.Sums Cox.Model.Balls Cox.Thm.BallsThm.
Import ListNotations.
Local Open Scope R_scope.

(* circumsphere: the solution x of the linear system the code solves (rows v_i - v_0,
   right-hand sides |v_i - v_0|^2/2) is equidistant from EVERY vertex, with radius |x| *)
Theorem C13_circum_equidistant :
  forall (v0 : vec3 R) (V : list (vec3 R)) (x : vec3 R),
    (forall v, In v V -> vdot Rops (vsub Rops v v0) x = vnorm2 Rops (vsub Rops v v0) / 2) ->
    forall v, In v (v0 :: V) -> d2 v (vadd Rops v0 x) = vnorm2 Rops x.
Proof. exact circum_all_vertices. Qed.
Print Assumptions C13_circum_equidistant.

Theorem C13_circum_iff_linear :
  forall v0 v x : vec3 R,
    d2 v (vadd Rops v0 x) = vnorm2 Rops x
    <-> vdot Rops (vsub Rops v v0) x = vnorm2 Rops (vsub Rops v v0) / 2.
Proof. exact circum_iff_linear. Qed.
Print Assumptions C13_circum_iff_linear.

(* insphere: tangency to a face plane from inside is the row (n, 1).(C, r) = n.v of the system *)
Theorem C13_tangent_iff_linear :
  forall (n v C : vec3 R) (r : R),
    vdot Rops n (vsub Rops C v) = - r <-> vdot Rops n C + r = vdot Rops n v.
Proof. exact tangent_iff_linear. Qed.
Print Assumptions C13_tangent_iff_linear.

(* maximal centred bounded ball: B(C, r) lies in a half-space n.x + d <= 0 (n unit) iff
   n.C + d + r <= 0, and touches the plane when equality holds; so the largest admissible radius
   is the smallest centre-to-plane distance *)
Theorem C13_ball_in_halfspace :
  forall (n C : vec3 R) (d r : R), vnorm2 Rops n = 1 -> 0 <= r ->
    ((forall u, vnorm2 Rops u <= 1 -> vdot Rops n (vadd Rops C (vscale Rops r u)) + d <= 0)
     <-> vdot Rops n C + d + r <= 0).
Proof. exact ball_in_halfspace. Qed.
Print Assumptions C13_ball_in_halfspace.

Theorem C13_ball_touches :
  forall (n C : vec3 R) (d r : R), vnorm2 Rops n = 1 -> vdot Rops n C + d + r = 0 ->
    vdot Rops n (vadd Rops C (vscale Rops r n)) + d = 0.
Proof. exact ball_touches_plane. Qed.
Print Assumptions C13_ball_touches.

(* minimal centred bounding ball *)
Theorem C13_centered_bounding_minimal :
  forall (c : vec3 R) (V : list (vec3 R)) (R2 : R),
    (forall v, In v V -> d2 v c <= R2) -> (exists v, In v V /\ d2 v c = R2) ->
    forall R2', (forall v, In v V -> d2 v c <= R2') -> R2 <= R2'.
Proof. exact centered_bounding_minimal. Qed.
Print Assumptions C13_centered_bounding_minimal.

(* minimal bounding ball: the certificate the harness checks on miniball's output is sufficient:
   an enclosing ball whose centre is a convex combination of points ON its boundary is no larger
   than any other ball containing those points (hence minimal) *)
Theorem C13_miniball_certificate :
  forall (c : vec3 R) (r2 : R) (W : list (R * vec3 R)),
    (forall w, In w W -> 0 <= fst w) -> wsum (fun _ => 1) W = 1 ->
    wsum (fun p => vx p - vx c) W = 0 -> wsum (fun p => vy p - vy c) W = 0 -> wsum (fun p => vz p - vz c) W = 0 ->
    (forall w, In w W -> d2 (snd w) c = r2) ->
    forall (c' : vec3 R) (r2' : R), (forall w, In w W -> d2 (snd w) c' <= r2') -> r2 <= r2'.
Proof. exact miniball_certificate. Qed.
Print Assumptions C13_miniball_certificate.

(* curved shapes: the ball with the smallest semi-axis is inside, the one with the largest contains *)
Theorem C13_ellipsoid_between_balls :
  forall a b c x y z lo hi : R,
    0 < lo -> lo <= a -> lo <= b -> lo <= c -> a <= hi -> b <= hi -> c <= hi ->
    (x * x + y * y + z * z <= lo * lo -> (x / a) ^ 2 + (y / b) ^ 2 + (z / c) ^ 2 <= 1)
    /\ ((x / a) ^ 2 + (y / b) ^ 2 + (z / c) ^ 2 <= 1 -> x * x + y * y + z * z <= hi * hi).
Proof. exact ellipsoid_between_balls. Qed.
Print Assumptions C13_ellipsoid_between_balls.

(* non-vacuity: the exact circumsphere solve on a unit cube's vertices: centre offset (1/2,1/2,1/2), residual 0;
   on a 2x1x1 box plus an off-sphere point: residual > 0 *)
Example C13_cube_circum :
  circum_solve Qops [(0,0,0); (1,0,0); (0,1,0); (0,0,1); (1,1,0); (1,0,1); (0,1,1); (1,1,1)]%Q None
  = Some (((1#2)%Q, (1#2)%Q, (1#2)%Q), 0%Q).
Proof. vm_compute. reflexivity. Qed.
