(* C18 — every tabulated family entry is the solid its name says.
   Gen/Tables.v (entry names in file order, short codes, vertex counts, cited sources) is REGENERATED
   from the JSON data on every run; Model/Reference.v holds the textbook (V, E, F) of the Platonic,
   Archimedean and Catalan solids.  Finite domain: the statements are decided by vm_compute. *)
From Coq Require Import String List Bool.
Require Import Cox.Gen.Tables Cox.Model.Reference.

Theorem C18_family_sizes : counts_ok = true.
Proof. vm_compute. reflexivity. Qed.
Print Assumptions C18_family_sizes.

(* each Platonic / Archimedean / Catalan entry is a reference solid with its textbook vertex count, every
   reference solid is tabulated exactly once, and the reference data satisfy V - E + F = 2 *)
Theorem C18_named_solids :
  matches_reference table_platonic ref_platonic = true
  /\ matches_reference table_archimedean ref_archimedean = true
  /\ matches_reference table_catalan ref_catalan = true.
Proof. vm_compute. repeat split; reflexivity. Qed.
Print Assumptions C18_named_solids.

(* the 145 entries of the DOI 10.1126/science.1220869 repository have distinct keys and every entry that cites a
   named family refers to an entry of that family (by name or alternative name) with the same number of vertices *)
Theorem C18_repository_citations : repository_ok = true.
Proof. vm_compute. reflexivity. Qed.
Print Assumptions C18_repository_citations.
(* geometric facts (unit volume, equal edges, regular faces, inspheres, coincidence up to rigid motion, edge and
   face counts of the built polyhedra) are decided exhaustively over all 290 entries by the correspondence. *)
