(* C04 — polygon area, signed area, centroid and planar moments equal the exact integrals, for either vertex
   orientation and any plane.  Level 0 (TriangleIntegrals): the shoelace edge terms are the integrals of 1, x, y^2,
   x^2, xy over the signed triangle (0, v_i, v_{i+1}) (Coquelicot RInt over the standard simplex, Jacobian a x b);
   the signed fan decomposition of a simple polygon itself is the modelled step. *)
From Coq Require Import Reals QArith Qreals List Lia Lra.
Require Import Cox.Num.Ops Cox.Num.Transfer Cox.Geo.Vec Cox.Geo.Sums Cox.Model.Polygon Cox.Model.Entry
  Cox.Thm.PolygonThm Cox.Thm.TriangleIntegrals Cox.Thm.PolygonFan Cox.Thm.PolygonTransfer Cox.Thm.CycleSplit.
Import ListNotations.
Local Open Scope R_scope.

(* signed area: the projection formula of the code sums exactly the p-th component of the vector area *)
Theorem C04_projection_is_vector_area :
  forall p V, (p < 3)%nat -> sproj Rops p V = vcomp p (A2 Rops V).
Proof. exact sproj_is_A2_component. Qed.
Print Assumptions C04_projection_is_vector_area.

(* ... so for a planar polygon (vector area parallel to N) the code's coefficient is (N.A2)/(2 N.N): the exact signed
   area about N, divided by |N| *)
Theorem C04_signed_area :
  forall N V lam, A2 Rops V = vscale Rops lam N -> vcomp (argmax3 Rops N) N <> 0 ->
    sa_coef Rops N V = sa_spec_coef Rops N V.
Proof. exact sa_coef_exact. Qed.
Print Assumptions C04_signed_area.

(* orientation: reversing the vertex order negates the vector area, a cyclic shift leaves it alone *)
Theorem C04_orientation :
  forall p V, (p < 3)%nat ->
    vcomp p (A2 Rops (rev V)) = - vcomp p (A2 Rops V) /\ vcomp p (A2 Rops (roll V)) = vcomp p (A2 Rops V).
Proof. intros p V Hp. split; [apply A2_reverse | apply A2_cyclic_shift]; exact Hp. Qed.
Print Assumptions C04_orientation.

(* centroid of the (repaired) code = the exact centroid, either orientation *)
Theorem C04_centroid :
  forall N V lam, A2 Rops V = vscale Rops lam N -> vcomp (argmax3 Rops N) N <> 0 ->
    pcentroid_code Rops false N V = pcentroid_spec Rops N V.
Proof. exact pcentroid_code_exact. Qed.
Print Assumptions C04_centroid.

(* the code as found (|area| in the denominator) is right for counter-clockwise input only ... *)
Theorem C04_centroid_abs_ccw_partial :
  forall N V, 0 <= sa_coef Rops N V -> pcentroid_code Rops true N V = pcentroid_code Rops false N V.
Proof. exact pcentroid_abs_ccw_partial. Qed.
Print Assumptions C04_centroid_abs_ccw_partial.

(* ... and refuted on the clockwise unit square about +z (the defect repaired by fix 85d8dc5) *)
Definition sq_cw : list (vec3 Q) := [(0,0,0); (0,1,0); (1,1,0); (1,0,0)]%Q.
Theorem C04_centroid_abs_refuted :
  pcentroid_code Qops true (0,0,1)%Q sq_cw <> pcentroid_spec Qops (0,0,1)%Q sq_cw
  /\ pcentroid_code Qops false (0,0,1)%Q sq_cw = pcentroid_spec Qops (0,0,1)%Q sq_cw.
Proof. vm_compute. split; [discriminate | reflexivity]. Qed.
Print Assumptions C04_centroid_abs_refuted.

(* shoelace sums = signed fan sums of the triangle integrals *)
Theorem C04_sums_are_integrals :
  forall V, Sa Rops V = 2 * fan_int (fun _ _ => 1) V /\ Sx Rops V = 12 * fan_int (fun _ y => y ^ 2) V
         /\ Sy Rops V = 12 * fan_int (fun x _ => x ^ 2) V /\ Sxy Rops V = 24 * fan_int (fun x y => x * y) V.
Proof. intros V. repeat split; [apply Sa_is_fan | apply Sx_is_fan | apply Sy_is_fan | apply Sxy_is_fan]. Qed.
Print Assumptions C04_sums_are_integrals.

Theorem C04_triangle_integrals :
  forall ax ay bx by_,
    tri_int (fun _ _ => 1) ax ay bx by_ = (ax * by_ - ay * bx) / 2
    /\ tri_int (fun x _ => x) ax ay bx by_ = (ax * by_ - ay * bx) * (ax + bx) / 6
    /\ tri_int (fun x _ => x ^ 2) ax ay bx by_ = (ax * by_ - ay * bx) * (ax * ax + ax * bx + bx * bx) / 12
    /\ tri_int (fun _ y => y ^ 2) ax ay bx by_ = (ax * by_ - ay * bx) * (ay * ay + ay * by_ + by_ * by_) / 12
    /\ tri_int (fun x y => x * y) ax ay bx by_ = (ax * by_ - ay * bx) * (ax * by_ + 2 * (ax * ay + bx * by_) + bx * ay) / 24.
Proof. intros. repeat split; [apply tri_one | apply tri_x | apply tri_xx | apply tri_yy | apply tri_xy]. Qed.
Print Assumptions C04_triangle_integrals.

(* every shoelace sum of a vertex cycle of any length is the sum over its fan triangles (chords cancel) *)
Theorem C04_polygon_is_sum_of_fan_triangles :
  forall a b l,
    Sa Rops (a :: b :: l) = CycleSplit.fan (sh Rops) a b l /\ Sx Rops (a :: b :: l) = CycleSplit.fan tSx a b l
    /\ Sy Rops (a :: b :: l) = CycleSplit.fan tSy a b l /\ Sxy Rops (a :: b :: l) = CycleSplit.fan tSxy a b l.
Proof. exact shoelace_sums_are_fan_sums. Qed.
Print Assumptions C04_polygon_is_sum_of_fan_triangles.

(* the fan-sum area does not depend on the apex *)
Theorem C04_area_apex_free :
  forall c V, Sa Rops (map (fun v => vsub Rops v c) V) = Sa Rops V.
Proof. exact Sa_translation. Qed.
Print Assumptions C04_area_apex_free.

(* planar moments of the (repaired) code: the orientation-corrected integrals *)
Theorem C04_planar_moments :
  forall V, 0 <= sgnT Rops (Sa Rops V) * Sx Rops V -> 0 <= sgnT Rops (Sa Rops V) * Sy Rops V -> Sa Rops V <> 0 ->
    planar_moments Rops false V = planar_moments_spec Rops V.
Proof. exact planar_moments_exact. Qed.
Print Assumptions C04_planar_moments.

Theorem C04_planar_moments_orientation_free :
  forall V, planar_moments_spec Rops (rev V) = planar_moments_spec Rops V.
Proof. exact planar_moments_spec_orientation_free. Qed.
Print Assumptions C04_planar_moments_orientation_free.

(* the code as found (abs of the xy sum) is wrong whenever the true product of inertia is negative
   (the defect repaired by fix c2353e4) *)
Theorem C04_planar_moments_abs_refuted :
  forall V, sgnT Rops (Sa Rops V) * Sxy Rops V < 0 ->
    nth 2 (planar_moments Rops true V) 0 <> nth 2 (planar_moments_spec Rops V) 0.
Proof. exact planar_moments_abs_refuted_shape. Qed.
Print Assumptions C04_planar_moments_abs_refuted.

(* the executable (rational) model computes what the theorems speak about *)
Theorem C04_transfer :
  forall N V b,
    Q2R (sa_coef Qops N V) = sa_coef Rops (Q2R3 N) (map Q2R3 V)
    /\ Q2R3 (pcentroid_code Qops b N V) = pcentroid_code Rops b (Q2R3 N) (map Q2R3 V)
    /\ map Q2R (planar_moments Qops b V) = planar_moments Rops b (map Q2R3 V)
    /\ (forall c, Q2R (polar_coef Qops N c V) = polar_coef Rops (Q2R3 N) (Q2R3 c) (map Q2R3 V)).
Proof.
  intros N V b. repeat split; [apply sa_coef_transfer | apply pcentroid_code_transfer | apply planar_moments_transfer |].
  intros c. apply polar_coef_transfer.
Qed.
Print Assumptions C04_transfer.

(* hypotheses are satisfiable: a non-convex counter-clockwise L-shape with a negative-xy lobe *)
Definition ell_ccw : list (vec3 Q) := [(0,0,0); (2,0,0); (2,-1,0); (3,-1,0); (3,1,0); (0,1,0)]%Q.
Example C04_hypotheses :
  (sa_coef Qops (0,0,1)%Q ell_ccw == sa_spec_coef Qops (0,0,1)%Q ell_ccw)%Q
  /\ (sa_coef Qops (0,0,1)%Q ell_ccw == 4)%Q
  /\ (sa_coef Qops (0,0,1)%Q (rev ell_ccw) == -4)%Q
  /\ planar_moments Qops false ell_ccw = planar_moments_spec Qops ell_ccw
  /\ planar_moments Qops false (rev ell_ccw) = planar_moments_spec Qops ell_ccw.
Proof. vm_compute. repeat split. Qed.
