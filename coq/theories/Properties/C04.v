(* C04 placeholder: statements are added below as they are proved. *)
From Coq Require Import Reals.
Require Import Cox.Num.Ops Cox.Model.Polygon.
