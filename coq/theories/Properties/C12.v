(* C12 — form factor amplitude is the Fourier transform of the shape (PARTIAL).
   Model/FormFactor.v: the q != 0 branch of Polygon.compute_form_factor_amplitude as a sum of edge
   terms over the vertex cycle (complex numbers as pairs over R).
   Proved: the algebraic laws any Fourier transform of a real density obeys, for the code's formula,
   for every vertex cycle; that each edge term IS the line integral of the plane wave along the edge
   (Coquelicot RInt); that the polygon amplitude is the sum of the amplitudes of its fan triangles.
   For a TRIANGLE in the xy-plane and an in-plane q in generic position the formula is proved equal to the
   Fourier integral of the indicator (C12_triangle_is_fourier_integral); with the fan decomposition this covers
   polygons of any size up to the same modelled step as C04 (a simple polygon's integral = signed sum over its fan).
   The same on ANY plane (C12_polygon_any_plane_is_fan_of_fourier_integrals): unit normal n, wave vector projected into the plane as the
   method does.
   ... and for EVERY wave vector whose projection into the plane is not zero, the directions perpendicular to an edge or to a fan chord
   included (C12_polygon_any_plane_all_directions; the fan triangles must be non-degenerate).
   NOT proved: polyhedra for wave vectors that are not generic for the cones (limits of the generic case); fans with collinear triples;
   those are decided by correspondence with direct quadrature of the defining integral.
   POLYHEDRA (C12_polyhedron_is_sum_of_cone_fourier_integrals): for every closed, oriented, triangulated surface with unit face normals
   (any plane, any size) the face sum of Polyhedron.compute_form_factor_amplitude equals the sum of the Fourier integrals of the signed
   cone tetrahedra (o, a, b, c), for every apex o and every q generic for the cones; polygonal faces are the sums of their fan
   triangles.  That the signed cones tile the solid is the modelled step shared with C01/C02.
   The hand-written definitions polygon_ff_code / polyhedron_ff_code are run, float-extracted, against the implementation on every
   run (correspondence to 1e-9).
   SPHERE: the two value expressions of Sphere.compute_form_factor_amplitude are regenerated from the source (Gen/Scalars.v,
   sphere_ff_amp / sphere_ff_zero) and proved equal to the Fourier integral of the centred ball in spherical coordinates
   (C12_sphere_is_fourier_integral); the phase factor exp(-i q.c) and the density are the last statement of the method, matched
   textually by the translator. *)
From Coq Require Import Reals List Lra.
Require Import Cox.Num.Ops Cox.Geo.Vec Cox.Model.FormFactor Cox.Thm.FormFactorThm Cox.Thm.FormFactorIntegral Cox.Thm.TriangleFF Cox.Thm.PolygonFF Cox.Gen.Scalars Cox.Thm.SphereFF
  Cox.Model.Mesh Cox.Model.Polygon Cox.Thm.MeshThm Cox.Thm.TetraInt Cox.Thm.FaceFF Cox.Thm.PolyhedronFF Cox.Thm.PolygonFF3.
Local Open Scope R_scope.

(* F(-q) is the complex conjugate of F(q) *)
Theorem C12_conjugate_symmetry :
  forall (n q : vec3 R) (V : list (vec3 R)), polygon_ff n (vopp Rops q) V = cconj (polygon_ff n q V).
Proof. exact ff_conj. Qed.
Print Assumptions C12_conjugate_symmetry.

(* translating the shape by t multiplies F by exp(-i q.t) *)
Theorem C12_translation_phase :
  forall (n q t : vec3 R) (V : list (vec3 R)),
    polygon_ff n q (map (fun v => vadd Rops v t) V) = cmul (cexp_i (- vdot Rops q t)) (polygon_ff n q V).
Proof. exact ff_translation. Qed.
Print Assumptions C12_translation_phase.

(* the line integral changes sign with the orientation of the vertex cycle: the code as found therefore
   returned -F for clockwise cycles (refuted independence of orientation); the repaired code multiplies
   by sign(signed_area), which also flips, so the product is orientation-free *)
Theorem C12_reversal_negates_line_integral :
  forall (n q : vec3 R) (V : list (vec3 R)), polygon_ff n q (rev V) = copp (polygon_ff n q V).
Proof. exact ff_reverse. Qed.
Print Assumptions C12_reversal_negates_line_integral.

Corollary C12_orientation_free_with_sign_factor :
  forall (s : R) (n q : vec3 R) (V : list (vec3 R)),
    cscale (- s) (polygon_ff n q (rev V)) = cscale s (polygon_ff n q V).
Proof.
  intros. rewrite ff_reverse. unfold cscale, copp; simpl. f_equal; ring.
Qed.
Print Assumptions C12_orientation_free_with_sign_factor.


(* level 0: int_0^1 exp(i (al + t be)) dt = sinc(be/2) exp(i (al + be/2)), for every al, be (be = 0 included) *)
Theorem C12_edge_wave_integral :
  forall al be,
    @Coquelicot.RInt.RInt Coquelicot.Hierarchy.R_CompleteNormedModule (fun t => cos (al + t * be)) 0 1 = sincR (be / 2) * cos (al + be / 2)
    /\ @Coquelicot.RInt.RInt Coquelicot.Hierarchy.R_CompleteNormedModule (fun t => sin (al + t * be)) 0 1 = sincR (be / 2) * sin (al + be / 2).
Proof. intros. split; [apply edge_wave_integral_cos | apply edge_wave_integral_sin]. Qed.
Print Assumptions C12_edge_wave_integral.

(* ... hence each edge term of the code's formula is  -i ((e x q).n / q^2)  times the plane wave integrated
   along that edge *)
Theorem C12_edge_term_is_line_integral :
  forall n q a b,
    edge_term n q a b
    = cscale (vdot Rops (vcross Rops (vsub Rops b a) q) n / vdot Rops q q) (cmul (0, -1) (wave_on_edge q a b)).
Proof. exact edge_term_is_line_integral. Qed.
Print Assumptions C12_edge_term_is_line_integral.

(* additivity: the amplitude of any vertex cycle is the sum of the amplitudes of its fan triangles
   (every chord is traversed once in each direction) - for polygons of any size, convex or not *)
Theorem C12_polygon_is_sum_of_fan_triangles :
  forall n q a b l, polygon_ff n q (a :: b :: l) = ff_fan n q a b l.
Proof. exact ff_is_fan. Qed.
Print Assumptions C12_polygon_is_sum_of_fan_triangles.


(* THE FOURIER IDENTITY for a triangle: with the affine parametrisation r = a + u (b-a) + v (c-a) of the triangle over
   the standard simplex (Jacobian J = (b-a) x (c-a), signed), the code's edge sum equals
       J * int_0^1 int_0^(1-u) exp(-i q.r) dv du
   - real part J*intint cos(q.r), imaginary part -J*intint sin(q.r) - for every triangle and every in-plane q with
   q.(b-a), q.(c-a), q.(c-b) all non-zero. *)
Theorem C12_triangle_is_fourier_integral :
  forall a1 a2 b1 b2 c1 c2 q1 q2 : R,
    let a : vec3 R := (a1, a2, 0) in let b : vec3 R := (b1, b2, 0) in let c : vec3 R := (c1, c2, 0) in
    let q : vec3 R := (q1, q2, 0) in
    let A := q1 * a1 + q2 * a2 in
    let be := q1 * (b1 - a1) + q2 * (b2 - a2) in
    let ga := q1 * (c1 - a1) + q2 * (c2 - a2) in
    let J := (b1 - a1) * (c2 - a2) - (b2 - a2) * (c1 - a1) in
    be <> 0 -> ga <> 0 -> be <> ga ->
    polygon_ff (0, 0, 1) q (a :: b :: c :: nil)
    = (J * @Coquelicot.RInt.RInt Coquelicot.Hierarchy.R_CompleteNormedModule
             (fun u => @Coquelicot.RInt.RInt Coquelicot.Hierarchy.R_CompleteNormedModule (fun v => cos (A + u * be + v * ga)) 0 (1 - u)) 0 1,
       - (J * @Coquelicot.RInt.RInt Coquelicot.Hierarchy.R_CompleteNormedModule
             (fun u => @Coquelicot.RInt.RInt Coquelicot.Hierarchy.R_CompleteNormedModule (fun v => sin (A + u * be + v * ga)) 0 (1 - u)) 0 1)).
Proof. exact triangle_ff_is_fourier. Qed.
Print Assumptions C12_triangle_is_fourier_integral.

(* POLYGONS OF ANY SIZE (convex or not, either orientation) in the xy-plane: the code's edge sum is the sum over the fan
   triangles (v0, v_i, v_i+1) of the Fourier integrals of their signed indicators, for every in-plane q generic for each
   fan triangle.  (That the signed fan sum of indicators is the indicator of a simple polygon is the modelled step shared
   with C04 and C06.) *)
Theorem C12_polygon_is_fan_of_fourier_integrals :
  forall (q a b : P2) (l : list P2), generic_fan q a b l ->
    polygon_ff (0, 0, 1) (emb q) (map emb (a :: b :: l)) = fan_fourier q a b l.
Proof. exact polygon_ff_is_fan_of_fourier_integrals. Qed.
Print Assumptions C12_polygon_is_fan_of_fourier_integrals.

(* the hypothesis is satisfiable: an L-shaped hexagon and q = (1, 1/3) *)
Example C12_generic_example :
  generic_fan (1, 1 / 3) (0, 0) (2, 0) ((2, 1) :: (1, 1) :: (1, 2) :: (0, 2) :: nil).
Proof. cbn [generic_fan]. unfold generic_tri. cbn [fst snd]. repeat split; lra. Qed.


(* SPHERE: for every radius and every non-zero wave vector (|q| = q > 0) the amplitude formula of the source is the Fourier integral of
   the centred ball written in spherical coordinates about the direction of q,
       int_0^r int_0^pi 2 pi rho^2 sin(th) exp(-i q rho cos th) dth drho ,
   whose imaginary part vanishes; and the value of the zero-q branch (the volume) is the same integral at q = 0. *)
Theorem C12_sphere_is_fourier_integral :
  forall r cx cy cz q, 0 < q -> 0 < r ->
    sphere_ff_amp r cx cy cz (q ^ 2)
    = @Coquelicot.RInt.RInt Coquelicot.Hierarchy.R_CompleteNormedModule
        (fun rho => @Coquelicot.RInt.RInt Coquelicot.Hierarchy.R_CompleteNormedModule
                      (fun th => 2 * PI * rho ^ 2 * sin th * cos (q * rho * cos th)) 0 PI) 0 r
    /\ @Coquelicot.RInt.RInt Coquelicot.Hierarchy.R_CompleteNormedModule
        (fun rho => @Coquelicot.RInt.RInt Coquelicot.Hierarchy.R_CompleteNormedModule
                      (fun th => - (2 * PI * rho ^ 2 * sin th * sin (q * rho * cos th))) 0 PI) 0 r = 0
    /\ sphere_ff_zero r cx cy cz
       = @Coquelicot.RInt.RInt Coquelicot.Hierarchy.R_CompleteNormedModule
           (fun rho => @Coquelicot.RInt.RInt Coquelicot.Hierarchy.R_CompleteNormedModule
                         (fun th => 2 * PI * rho ^ 2 * sin th * cos (0 * rho * cos th)) 0 PI) 0 r.
Proof.
  intros r cx cy cz q Hq Hr. destruct (sphere_ff_is_fourier_integral r cx cy cz q Hq Hr) as [H1 H2].
  split; [exact H1 | split; [exact H2 | exact (sphere_ff_zero_is_volume_integral r cx cy cz)]].
Qed.
Print Assumptions C12_sphere_is_fourier_integral.


(* POLYHEDRA.  A facet is (unit normal n, s, triangle (a,b,c)) with (b-a) x (c-a) = s n, s <> 0.  For every closed chain of facets,
   every apex o and every wave vector q generic for the cones (q.(a-o), q.(b-o), q.(c-o) non-zero and pairwise different), the face sum
   of the code equals the sum over the facets of
       det(a-o, b-o, c-o) * int_0^1 int_0^(1-u) int_0^(1-u-v) exp(-i q.(o + u (a-o) + v (b-o) + w (c-o))) dw dv du . *)
Theorem C12_cone_fourier_is :
  forall q o t,
    cone_fourier q o t
    = let A := vdot Rops q o in let al := cone_al q o t in let be := cone_be q o t in let ga := cone_ga q o t in
      cscale (cone_det o t)
        (@Coquelicot.RInt.RInt Coquelicot.Hierarchy.R_CompleteNormedModule (fun u =>
           @Coquelicot.RInt.RInt Coquelicot.Hierarchy.R_CompleteNormedModule (fun v =>
             @Coquelicot.RInt.RInt Coquelicot.Hierarchy.R_CompleteNormedModule (fun w => cos (A + u * al + v * be + w * ga)) 0 (1 - u - v)) 0 (1 - u)) 0 1,
         - @Coquelicot.RInt.RInt Coquelicot.Hierarchy.R_CompleteNormedModule (fun u =>
           @Coquelicot.RInt.RInt Coquelicot.Hierarchy.R_CompleteNormedModule (fun v =>
             @Coquelicot.RInt.RInt Coquelicot.Hierarchy.R_CompleteNormedModule (fun w => sin (A + u * al + v * be + w * ga)) 0 (1 - u - v)) 0 (1 - u)) 0 1).
Proof. reflexivity. Qed.

Theorem C12_polyhedron_is_sum_of_cone_fourier_integrals :
  forall (q o : vec3 R) (Fs : list facet),
    (forall f, In f Fs -> facet_ok f) -> closed (map ftri Fs) -> (forall f, In f Fs -> generic_cone q o (ftri f)) ->
    polyhedron_ff q (map facet_face Fs) = csum (map (cone_fourier q o) (map ftri Fs)).
Proof. exact polyhedron_ff_is_fourier. Qed.
Print Assumptions C12_polyhedron_is_sum_of_cone_fourier_integrals.

(* one tetrahedron: Gauss' theorem for the plane wave, four face terms = det * closed form of the triple integral *)
Theorem C12_tetrahedron_gauss :
  forall q o a b c,
    let al := vdot Rops q (vsub Rops a o) in let be := vdot Rops q (vsub Rops b o) in let ga := vdot Rops q (vsub Rops c o) in
    generic3 al be ga ->
    cadd (tri_sf q a b c) (cadd (tri_sf q o c b) (cadd (tri_sf q o a c) (tri_sf q o b a)))
    = cscale (det3 (vsub Rops a o) (vsub Rops b o) (vsub Rops c o)) (T_cos (vdot Rops q o) al be ga, - T_sin (vdot Rops q o) al be ga).
Proof. exact tet_gauss. Qed.
Print Assumptions C12_tetrahedron_gauss.

(* polygonal faces of any size: the face term is the sum of the face terms of the fan triangles; and the orientation factor of the
   polygon method is +1 for faces listed counter-clockwise about their normal (as sort_faces leaves them) *)
Theorem C12_face_is_sum_of_fan_triangles :
  forall n q a b l, face_ff n q (a :: b :: l) = face_fan n q a b l.
Proof. exact face_ff_is_fan. Qed.
Print Assumptions C12_face_is_sum_of_fan_triangles.

Theorem C12_code_face_term_counterclockwise :
  forall n q V, 0 < sa_coef Rops n V -> face_ff_code n q V = face_ff n q V.
Proof. exact face_ff_code_positive. Qed.
Print Assumptions C12_code_face_term_counterclockwise.

(* the hypotheses are satisfiable: the tetrahedron (0,0,0), (2,0,0), (0,1,0), (0,0,1) with its outward rational unit normals,
   q = (1, 3, 5), apex (1/3, 1/5, 1/7) *)
Example C12_polyhedron_hypotheses_hold :
  (forall f, In f ex_facets -> facet_ok f) /\ closed (map ftri ex_facets) /\ (forall f, In f ex_facets -> generic_cone ex_q ex_o (ftri f)).
Proof. exact polyhedron_ff_hypotheses_hold. Qed.


(* POLYGONS ON ANY PLANE, any size, convex or not: with the wave vector projected into the plane (qpar n q, as the method does), the edge
   sum is the sum over the fan triangles of  (n . (b-a) x (c-a)) * intint exp(-i q_par . r)  - twice the signed area about n times the
   Fourier integral over the standard simplex. *)
Theorem C12_polygon_any_plane_is_fan_of_fourier_integrals :
  forall (n q a b : vec3 R) (l : list (vec3 R)),
    vdot Rops n n = 1 -> generic_fan3 n q a b l ->
    polygon_ff n (qpar n q) (a :: b :: l) = fan3_fourier n q a b l.
Proof. exact polygon_any_plane_is_fan_of_fourier_integrals. Qed.
Print Assumptions C12_polygon_any_plane_is_fan_of_fourier_integrals.

Theorem C12_tri3_fourier_is :
  forall n q a b c,
    tri3_fourier n q a b c
    = let p := qpar n q in
      let A := vdot Rops p a in let be := vdot Rops p (vsub Rops b a) in let ga := vdot Rops p (vsub Rops c a) in
      cscale (vdot Rops n (vcross Rops (vsub Rops b a) (vsub Rops c a)))
        (@Coquelicot.RInt.RInt Coquelicot.Hierarchy.R_CompleteNormedModule (fun u =>
           @Coquelicot.RInt.RInt Coquelicot.Hierarchy.R_CompleteNormedModule (fun v => cos (A + u * be + v * ga)) 0 (1 - u)) 0 1,
         - @Coquelicot.RInt.RInt Coquelicot.Hierarchy.R_CompleteNormedModule (fun u =>
           @Coquelicot.RInt.RInt Coquelicot.Hierarchy.R_CompleteNormedModule (fun v => sin (A + u * be + v * ga)) 0 (1 - u)) 0 1).
Proof. reflexivity. Qed.

Example C12_any_plane_hypotheses_hold :
  let n : vec3 R := (/ 3, 2 / 3, 2 / 3) in
  vdot Rops n n = 1 /\ generic_fan3 n (1, 3, 5) (3, 0, 0) (1, 1, 0) ((1, 0, 1) :: (3, -1, 1) :: nil).
Proof. exact generic_fan3_example. Qed.


(* ... and every direction: for a polygon of any size on any plane whose fan triangles are non-degenerate, and EVERY wave vector whose
   projection into the plane is not zero (also perpendicular to an edge or to a fan chord, where the code's sinc factor takes its value at 0),
   the edge sum is the fan of Fourier integrals *)
Theorem C12_polygon_any_plane_all_directions :
  forall (n q a b : vec3 R) (l : list (vec3 R)),
    vdot Rops n n = 1 -> planar_fan3 n a b l -> vdot Rops (qpar n q) (qpar n q) <> 0 ->
    polygon_ff n (qpar n q) (a :: b :: l) = fan3_fourier n q a b l.
Proof. exact polygon_any_plane_all_directions. Qed.
Print Assumptions C12_polygon_any_plane_all_directions.
