(* C12 — form factor amplitude is the Fourier transform of the shape (PARTIAL).
   Model/FormFactor.v: the q != 0 branch of Polygon.compute_form_factor_amplitude as a sum of edge
   terms over the vertex cycle (complex numbers as pairs over R).
   Proved: the algebraic laws any Fourier transform of a real density obeys, for the code's formula,
   for every vertex cycle.  NOT proved: that the edge sum equals the area integral of exp(-i q.r)
   (Green/Stokes identity) and the polyhedron/sphere analogues; those are decided by correspondence
   with direct quadrature of the defining integral. *)
From Coq Require Import Reals List.
Require Import Cox.Num.Ops Cox.Geo.Vec Cox.Model.FormFactor Cox.Thm.FormFactorThm.
Local Open Scope R_scope.

(* F(-q) is the complex conjugate of F(q) *)
Theorem C12_conjugate_symmetry :
  forall (n q : vec3 R) (V : list (vec3 R)), polygon_ff n (vopp Rops q) V = cconj (polygon_ff n q V).
Proof. exact ff_conj. Qed.
Print Assumptions C12_conjugate_symmetry.

(* translating the shape by t multiplies F by exp(-i q.t) *)
Theorem C12_translation_phase :
  forall (n q t : vec3 R) (V : list (vec3 R)),
    polygon_ff n q (map (fun v => vadd Rops v t) V) = cmul (cexp_i (- vdot Rops q t)) (polygon_ff n q V).
Proof. exact ff_translation. Qed.
Print Assumptions C12_translation_phase.

(* the line integral changes sign with the orientation of the vertex cycle: the code as found therefore
   returned -F for clockwise cycles (refuted independence of orientation); the repaired code multiplies
   by sign(signed_area), which also flips, so the product is orientation-free *)
Theorem C12_reversal_negates_line_integral :
  forall (n q : vec3 R) (V : list (vec3 R)), polygon_ff n q (rev V) = copp (polygon_ff n q V).
Proof. exact ff_reverse. Qed.
Print Assumptions C12_reversal_negates_line_integral.

Corollary C12_orientation_free_with_sign_factor :
  forall (s : R) (n q : vec3 R) (V : list (vec3 R)),
    cscale (- s) (polygon_ff n q (rev V)) = cscale s (polygon_ff n q V).
Proof.
  intros. rewrite ff_reverse. unfold cscale, copp; simpl. f_equal; ring.
Qed.
