(* Extraction of the executable model.
   - ExtrOcamlBasic (stdlib): bool/option/unit/prod/list/sumbool/sumor -> OCaml built-ins.
   - ExtrOcamlZBigInt (stdlib): positive/Z/N -> Big_int_Z.big_int (zarith), with the
     Extract Inductive / Extract Constant directives of that standard-library file
     (Pos.add succ pred sub mul min max compare compare_cont; N.add succ pred sub mul min
     max div_eucl div modulo compare shiftl shiftr; Z.add succ pred sub mul opp abs min max
     compare eqb eq_dec to_N of_N abs_N div_eucl div modulo).
     Reason: with Z kept as the Coq inductive, one 56-triangle inertia tensor took 11 s.
   - ONE directive of ours: Z.ggcd (the gcd used by Qred), below.
   nat and Q stay the Coq datatypes.  The binary is cross-checked on a sample of cases
   against [Eval vm_compute] inside Coq on every run (harness/common.py:vm_crosscheck). *)
Require Extraction.
Require Import ZArith.
Require Import ExtrOcamlBasic ExtrOcamlZBigInt.
Require Import Cox.Model.Entry.

Extract Constant Z.ggcd =>
 "(fun a b -> let g = Big_int_Z.gcd_big_int a b in
   if Big_int_Z.sign_big_int g = 0 then (Big_int_Z.zero_big_int, (Big_int_Z.zero_big_int, Big_int_Z.zero_big_int))
   else (g, (Big_int_Z.div_big_int a g, Big_int_Z.div_big_int b g)))".

Extraction "model.ml" dispatch.
