(* Float-realised extraction of the REAL-NUMBER model of the form-factor formulas (C12), used ONLY by the correspondence check:
   the hand-written definitions polygon_ff_code / polyhedron_ff_code (Model/FormFactor.v; Properties/C12.v) and edge_distance
   (Model/DistanceBranches.v; Properties/C14.v), the ones the theorems are about, are run on binary64 inputs and compared with the implementation to 1e-9.  No theorem depends on this file.
   Directives (all trusted, and all UNSOUND as statements about real numbers - binary64 is not a field; they make the model runnable,
   they prove nothing):
     R => float; R0, R1, Rplus, Rmult, Ropp, Rinv => 0.0, 1.0, +., *., ~-., 1/x;  sin, cos, tan, sqrt => OCaml's;
     Rle_dec, Rlt_dec, Req_EM_T => <=, <, =  (sumbool is bool under ExtrOcamlBasic);
     ClassicalDedekindReals.sig_forall_dec => a dummy (dead code of the standard library's construction of R);
   IZR, Rminus, Rdiv, the vector operations and the model itself are extracted from their Coq definitions. *)
Require Extraction.
Require Import Reals List.
Require Import ExtrOcamlBasic.
Require Import Cox.Num.Ops Cox.Geo.Vec Cox.Model.FormFactor Cox.Model.DistanceBranches.

(* the standard library's R is a module built on Dedekind cuts; extraction emits that module too (never called here): its one axiom
   must be given a body or the program stops at start-up *)
Extract Constant ClassicalDedekindReals.sig_forall_dec => "(fun _ -> None)".
Extract Constant R => "float".
Extract Constant R0 => "0.0".
Extract Constant R1 => "1.0".
Extract Constant Rplus => "(+.)".
Extract Constant Rmult => "( *. )".
Extract Constant Ropp => "(~-.)".
Extract Constant Rinv => "(fun x -> 1.0 /. x)".
Extract Constant sin => "Stdlib.sin".
Extract Constant cos => "Stdlib.cos".
Extract Constant tan => "Stdlib.tan".
Extract Constant sqrt => "Stdlib.sqrt".
Extract Constant Rle_dec => "(fun (x : float) (y : float) -> x <= y)".
Extract Constant Rlt_dec => "(fun (x : float) (y : float) -> x < y)".
Extract Constant Req_EM_T => "(fun (x : float) (y : float) -> x = y)".

Definition ffr_polygon (n q : vec3 R) (V : list (vec3 R)) : R * R := polygon_ff_code n q V.
Definition ffr_polyhedron (q : vec3 R) (F : list (vec3 R * list (vec3 R))) : R * R := polyhedron_ff_code q F.

Definition ffr_edge_distance (x1 y1 x2 y2 th : R) : R := edge_distance x1 y1 x2 y2 th.

Extraction "modelr.ml" ffr_polygon ffr_polyhedron ffr_edge_distance.
