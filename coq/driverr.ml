(* Driver for the float-realised real-number model (C12 correspondence only).
   input line:  P|nx ny nz|qx qy qz|x y z x y z ...          polygon (normal, q, vertices)
                H|qx qy qz|nx ny nz : x y z x y z ... ; nx ny nz : ...      polyhedron (q; faces with normals)
                E|x1 y1 x2 y2 theta                                       one edge of a centred polygon and one angle (C14)
   numbers are C99 hex floats; output: OK re im (hex floats). *)
open Modelr
let words s = List.filter (fun w -> w <> "") (String.split_on_char ' ' s)
let fl = float_of_string
let v3 = function [x; y; z] -> ((fl x, fl y), fl z) | _ -> failwith "v3"
let rec verts = function [] -> [] | x :: y :: z :: r -> ((fl x, fl y), fl z) :: verts r | _ -> failwith "verts"
let () =
  try
    while true do
      let line = input_line stdin in
      (try
        (match String.split_on_char '|' line with
         | ["P"; n; q; vs] ->
           let (re, im) = ffr_polygon (v3 (words n)) (v3 (words q)) (verts (words vs)) in
           Printf.printf "OK %h %h\n" re im
         | ["H"; q; faces] ->
           let fs = List.map (fun f -> match String.split_on_char ':' f with
               | [n; vs] -> (v3 (words n), verts (words vs)) | _ -> failwith "face") (String.split_on_char ';' faces) in
           let (re, im) = ffr_polyhedron (v3 (words q)) fs in
           Printf.printf "OK %h %h\n" re im
         | ["E"; xs] ->
           (match List.map fl (words xs) with
            | [x1; y1; x2; y2; th] -> Printf.printf "OK %h %h\n" (ffr_edge_distance x1 y1 x2 y2 th) 0.0
            | _ -> print_string "BADLINE\n")
         | _ -> print_string "BADLINE\n")
      with Failure _ -> print_string "BADLINE\n")
    done
  with End_of_file -> ()
