#!/bin/sh
# Build the Coq development and the extracted model binary from files on disk only.
set -e
cd "$(dirname "$0")"
exec ./build.sh
